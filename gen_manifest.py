#!/usr/bin/env python3
"""Regenerate MANIFEST.json from props.py (the single source of truth for what is claimed)."""
import json
from props import PROPS, NOT_APPLICABLE, HOOK_COMMITS

ids = [json.loads(l)["id"] for l in open("properties.jsonl") if l.strip()]
checks = []
for pid in ids:
    if pid not in PROPS:
        continue
    p = PROPS[pid]
    checks.append(dict(
        property_id=pid,
        quick_cmd=f"./check {pid} --tier quick",
        thorough_cmd=f"./check {pid} --tier thorough",
        evidence_file=f"/verif/evidence/{pid}.json",
        replay_cmd_template=f"./check {pid} --replay {{path}}",
        engine=p.get("engine", "harness"),
        level_claimed=dict(category=p["level"], text=p["level_text"], design_ref=p.get("design_ref", "DESIGN.md section 4 " + pid)),
        level_note=p["level_note"],
        technique=p["technique"],
    ))
na = [dict(property_id=i, reason=NOT_APPLICABLE.get(i, "check not built yet in this commit (work in progress; see DESIGN.md section 4 for the plan)"))
      for i in ids if i not in PROPS]
m = dict(
    version=1,
    setup_cmd="./check --setup",
    hooks=dict(guard="verif", enable="no hooks: the harness is a separate module importing flyt's public API only (go test -c in /verif/harness with replace => /repo); the tag 'verif' is reserved and unused",
               baseline_off_cmd="cd /repo && go test -vet=off -count=1 ./...", source_commits=HOOK_COMMITS, add_only=True),
    engines=[
        dict(name="harness", path="/verif/harness", serves_properties=[c["property_id"] for c in checks],
             kind_free_text="Go test module (go1.26.8, testing/synctest bubbles, pgregory.net/rapid v1.3.0 generators+shrinking, porcupine for C13) driven by /verif/check"),
    ],
    checks=checks,
    notes="All checks are property-based: generated/enumerated scenarios executed against the real library, decided by an explicit oracle. See DESIGN.md.",
    not_applicable=na,
)
json.dump(m, open("MANIFEST.json", "w"), indent=1)
print("claimed", len(checks), "not_applicable", len(na))
