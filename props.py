"""Per-property configuration for ./check: jobs (test regexp, shards, budgets) and evidence texts."""


def job(name, run, q=1, th=16, tq=300, tth=3000, race=False, tiers=("quick", "thorough")):
    return dict(name=name, run=run, shards=dict(quick=q, thorough=th), timeout=dict(quick=tq, thorough=tth),
                race=race, tiers=list(tiers))



T_PBT = "property-based testing (rapid v1.3.0 generators + shrinking) with small-scope exhaustive enumeration; "

def P(title, level, rule, explanation, level_text, level_note, technique, jobs, **kw):
    d = dict(title=title, level=level, rule=rule, explanation=explanation, level_text=level_text, level_note=level_note,
             technique=technique, jobs=jobs)
    d.update(kw)
    return d

PROPS = {
    "C02": P("Retry budget and fallback exact", "exploration",
        "cases = (node kind/style, budget N, exec failure sequence, fallback script): EXHAUSTIVE for N in 1..8 x all 2^(N+1) failure sequences x fallback{ok,err,passthrough} x every kind; "
        "plus rapid-generated flows and gated batch scenarios (each item judged by the same model); non-trivial = N>=2 and at least one failed attempt; distinct = FNV-64 of scenario JSON",
        "oracle: attempts == min(k,N) from the script alone; fallback exactly once iff all N failed, with the prep value and the error INSTANCE of attempt N-1; post/slot receives the fallback's outcome else the successful attempt's",
        "exhaustive over the whole quantified single-node space (N<=8), generated search for flows and batch items",
        "trusted: the 20-line retry/fallback model in c02_test.go; error identity by interface equality of distinct error tokens",
        T_PBT + "oracle = reference model of retry/fallback over callback traces",
        [job("main", "^TestC02$", q=4, th=16)]),
    "C03": P("Flow routing follows the table", "exploration",
        "cases = flow graphs + per-visit action scripts: EXHAUSTIVE for 2 nodes x 2 actions x entries{unconnected,nil,n0,n1} x start x cyclic scripts<=2 (quick) and the same for 3 nodes (thorough, 10.1M cases in 16 shards; quick samples it with stride 211); "
        "rapid: <=12 leaves, <=3 nested flows, 5 prefix-sharing actions, overwrites, nil targets, repeated runs; rapid state-machine: connect/reconnect/run on one live flow; "
        "non-trivial = path length>=3 and (cycle, or overwritten/nil connection present, or >=2nd run of the same object)",
        "oracle: reference interpreter (table walk, last Connect wins, nil/missing ends the flow) - visit log, touched leaves, store path and Flow.Run result must all equal the model",
        "exhaustive over the small-scope graph space named in the property, generated search beyond",
        "trusted: the reference interpreter in wf.go (never calls flyt)",
        T_PBT + "oracle = reference interpreter / model-based state machine",
        [job("main", "^TestC03$", q=4, th=16, tth=3400)]),
    "C04": P("Errors transparent, flows fail-stop", "fault_enumeration",
        "rapid generates failure-free workflow scenarios (depth<=4); for each, EVERY event of its reference path (leaf visit x phase x attempt) is injected as the single failure in 4 error flavours (sentinel, %w-wrapped, pointer type, value type) plus 'all attempts fail'; "
        "plus random multi-failure scripts; non-trivial = the failure ends the run at depth>=1 or is absorbed by retry/fallback",
        "oracle (model-free, over the actual trace): err==nil iff every node run on the path ended with a successful post; the returned error matches (errors.Is, inner sentinel, errors.As to the same instance) the LAST callback of the trace; no callback after the failing node run",
        "fault enumeration over every position of the executed path of each generated scenario",
        "trusted: trace recorder; 'ending callback' is identified as the last callback whose returned error matches",
        "fault-injection enumeration driven by rapid-generated scenarios with shrinking; oracle = errors.Is/As identity + fail-stop predicate over the callback trace",
        [job("main", "^TestC04$", q=4, th=16)]),
    "C05": P("Cancellation of nodes and flows", "fault_enumeration",
        "rapid generates workflow scenarios (single nodes and nested flows, budgets 1..4, with/without retry waits); cancellation is injected before the run and inside EVERY callback of the cancellation-free reference run, as cancel() from inside the callback and as a context deadline falling mid-callback (virtual clock); "
        "non-trivial = cancellation lands inside the run and suppresses at least one callback of the reference run",
        "oracle: pre-done => no callback and errors.Is(err, ctx.Err()); after the cancellation instant no exec attempt and no prep starts; actual trace is a prefix of the reference; a strict prefix must return an error matching ctx.Err()",
        "fault enumeration over all cancellation points of each generated scenario, in a synctest bubble (deterministic)",
        "trusted: testing/synctest virtual time; each callback takes 1 virtual second",
        "cancellation-point enumeration over rapid-generated scenarios in synctest bubbles; oracle = prefix-of-reference + ctx-error predicate",
        [job("main", "^TestC05$", q=4, th=16)]),
    "C06": P("Batch results positional; post once", "exploration",
        "cases = gated batch scenarios (n items, c workers, prep payload form, per-item scripts, release schedule). EXHAUSTIVE over all completion orders (replay-based DFS over 'which parked exec next') for the (n,c) pairs listed in exhaustive_subspaces; rapid: n in 0..64, c in 0..16, 9 prep payload forms, gated random release orders and un-gated random virtual durations; "
        "non-trivial = c>=2 and completion order differs from index order",
        "oracle: post exactly once, entered with no exec in flight and all n started; items element-wise identical to prep's; len(results)==n; slot i == the outcome (value identity / error instance) of item i's own last callback",
        "schedule enumeration: every completion order for n<=8,c<=4 (quick) and n=10,c=5 (thorough)",
        "trusted: synctest quiescence = every started exec has reached its gate",
        "schedule-enumerating property test in synctest bubbles + rapid generation; oracle = positional slot/item identity predicate",
        [job("main", "^TestC06$", q=4, th=16)]),
    "C07": P("Batch: every item once, per-item retry/fallback", "exploration",
        "cases = batch scenarios with independent per-item scripts: EXHAUSTIVE script assignments for n<=2 (quick) / n<=3 (thorough), budget<=2, c in 0..3, fallback on/off, two release orders; rapid: n<=32, budget<=4, c<=8, random release orders and un-gated timed runs; "
        "non-trivial = >=2 distinct item scripts, >=1 failing item, c>=2",
        "oracle: per item the C02 model on its own script (attempt count, numbering, fallback count/arguments, slot) and a differential run of the same script as a single NewNode; total exec calls == sum of model attempts",
        "generated search with exhaustive small scope",
        "trusted: per-item model; item identity decoded from the token each item carries",
        T_PBT + "oracle = per-item reference model + differential against single-node run",
        [job("main", "^TestC07$", q=4, th=16)]),
    "C08": P("Concurrency limit hard and usable", "exploration",
        "cases = gated batches for every c in 0..16 with n=4c+8, all release orders for (n,c) in {(5,2),(6,3),(7,3),(7,4)}, rapid batches (n<=4c+8) and direct WorkerPool scenarios (sizes -1..16, 1..4 submitters, up to 3 Wait rounds), gated or with random virtual durations, plus c-way barrier scenarios; "
        "non-trivial = n>c>=2 (queue refills) / tasks>3*workers or multiple submitters/rounds",
        "oracle at EVERY quiescent point: in-flight == min(c, unfinished) (upper bound and usability in one equation; c==0: exactly one, in item order); atomic high-water mark <= c; c mutually waiting items must complete (else the bubble's deadlock panic is the violation)",
        "schedule exploration with an invariant evaluated at every quiescent point",
        "trusted: synctest.Wait() returns only when every goroutine of the case is durably blocked",
        "gated schedule exploration in synctest bubbles; oracle = in-flight equation at quiescent points + high-water mark + deadlock detection",
        [job("main", "^TestC08$", q=4, th=16)]),
    "C09": P("Stop-on-error; no fake successes", "exploration",
        "cases = gated batches: EVERY position of the first failing item for n<=8 (quick)/16 (thorough), c in 0..4, stop and continue mode, failing item released while the other in-flight items stay parked, two release orders of the rest; all release orders for 4 small cases; rapid: second failing item, budgets 1..3, fallbacks that rescue or not; "
        "non-trivial = stop mode and at least one item after the failing one",
        "oracle: (a) stop mode: c<=1 no exec start after the failing callback; c>=2 no new item start after the quiescent point that follows the failing release; (b) every mode: slot i is the real outcome of an execution of item i that happened, or IsError()",
        "enumeration of failing positions x schedules under the quantifier's own gating restriction",
        "trusted: gating makes 'the failure has been handled' the next quiescent point",
        "gated schedule enumeration in synctest bubbles + rapid; oracle = start-after-failure predicate and slot-genuineness predicate",
        [job("main", "^TestC09$", q=4, th=16)]),
    "C10": P("Flow used as a node == flattened machine", "exploration",
        "cases = rapid-generated hierarchical flows (depth<=4; structured generator that connects (inner flow, action) pairs with high probability + two random generators), inner flows ending by unconnected action, nil connection or error, shared inner flows, repeated runs; "
        "non-trivial = depth>=2 and the parent follows a non-default connection on an inner flow's final action",
        "oracle: differential - the harness flattens the hierarchy (call-path states, successor via inner table -> exit -> parent table -> entry) into a REAL single-level flyt.Flow over fresh wrappers sharing the leaves' behaviours, runs both and requires identical callback sequence, store contents, success/failure; every inner callback must see the outermost store pointer; the reference interpreter must agree too",
        "differential generated search",
        "trusted: flatten() in c10_test.go",
        "differential property-based testing (nested vs flattened real flows) with rapid shrinking",
        [job("main", "^TestC10$", q=4, th=16)]),
    "C11": P("Cancelling a batch", "fault_enumeration",
        "cancellation injected before the run and from inside the exec of EVERY (item, attempt) for n<=7 (quick)/16 (thorough), c in 0..4, both modes, budgets 1..3, wait in {0,1h}; other in-flight items parked; rapid on top (random failing items, fallbacks, prep forms); "
        "non-trivial = cancellation strictly inside the run with >=1 item not yet started",
        "oracle: the run returns (a hang = bubble deadlock panic); no new item and no new retry attempt starts after the cancellation's quiescent point; then errors.Is(err, ctx.Err()) or post called exactly once with IsError() in every never-executed slot",
        "fault enumeration over cancellation points in a deterministic bubble",
        "trusted: gating; virtual clock",
        "cancellation-point enumeration in synctest bubbles + rapid; oracle = no-start-after-cancel + slot predicate + termination",
        [job("main", "^TestC11$", q=4, th=16)]),

    "C01": dict(
        title="Node lifecycle",
        level="exploration",
        rule=("cases = workflow scenarios (leaf kind x budget x per-phase outcome script x payload kinds), enumerated exhaustively "
              "for single nodes up to the stated bound and generated by rapid beyond (single nodes with N<=8, and leaves inside "
              "generated flows); a case is non-trivial when at least one phase fails, or the budget is >1, or post returns the "
              "empty action; distinct = distinct FNV-64 hash of the canonical scenario JSON"),
        explanation="oracle: lifecycle-shape and data-threading predicate over the recorded callback trace of every node run, plus the form of Run's return value",
        level_text=("generated-input search against a trace predicate: exhaustive over the single-node script space up to N<=3 (quick) / N<=5 "
                    "(thorough), random beyond; right level because the property is a universally quantified statement over outcome scripts x node kinds"),
        level_note="trusted: the harness's own trace recorder and predicate; payload identity is decided by pointer identity where Go allows it, deep equality otherwise",
        technique="property-based testing: exhaustive small-scope enumeration + rapid random generation with shrinking; oracle = lifecycle/data-threading predicate over callback traces",
        jobs=[job("main", "^TestC01$", q=2, th=16)],
    ),
}

NOT_APPLICABLE = {}
HOOK_COMMITS = []
