"""Per-property configuration for ./check: jobs (test regexp, shards, budgets) and evidence texts."""


def job(name, run, q=1, th=16, tq=300, tth=3000, race=False, tiers=("quick", "thorough"), fuzz=None, fuzztime=60):
    d = dict(name=name, run=run, shards=dict(quick=q, thorough=th), timeout=dict(quick=tq, thorough=tth),
             race=race, tiers=list(tiers))
    if fuzz:
        d.update(fuzz=fuzz, fuzztime=fuzztime)
    return d



T_PBT = "property-based testing (rapid v1.3.0 generators + shrinking) with small-scope exhaustive enumeration; "

def P(title, level, rule, explanation, level_text, level_note, technique, jobs, **kw):
    d = dict(title=title, level=level, rule=rule, explanation=explanation, level_text=level_text, level_note=level_note,
             technique=technique, jobs=jobs)
    d.update(kw)
    return d

PROPS = {
    "C02": P("Retry budget and fallback exact", "exploration",
        "cases = (node kind/style, budget N, exec failure sequence, fallback script): EXHAUSTIVE for N in 1..8 x all 2^(N+1) failure sequences x fallback{ok,err,passthrough} x every kind; "
        "plus rapid-generated flows and gated batch scenarios in every mode (each executed item judged by the same model; in stop mode only items settled before the stop are held to the exact budget); every run gets context.Background() (contexts are outside the quantifier); error values include wrapped context errors, non-comparable and net.Error-like types; non-trivial = N>=2 and at least one failed attempt; distinct = FNV-64 of scenario JSON",
        "oracle: attempts == min(k,N) from the script alone; fallback exactly once iff all N failed, with the prep value (function-style nodes: also inside the Result the phases are threaded through) and an error that matches the error of attempt N-1 under errors.Is/As (wrapping and joining admitted); post/slot receives the fallback's outcome else the successful attempt's",
        "exhaustive over the whole quantified single-node space (N<=8), generated search for flows and batch items",
        "trusted: the 20-line retry/fallback model in c02_test.go; error identity by walking the returned error's Unwrap tree for the very token",
        T_PBT + "oracle = reference model of retry/fallback over callback traces",
        [job("main", "^TestC02$", q=4, th=16)]),
    "C03": P("Flow routing follows the table", "exploration",
        "cases = flow graphs + per-visit action scripts: EXHAUSTIVE for 2 nodes x 2 actions x entries{unconnected,nil,n0,n1} x start x cyclic scripts<=2 (quick) and the same for 3 nodes (thorough, 10.1M cases in 16 shards; quick samples it with stride 211); "
        "rapid: <=12 leaves, <=3 nested flows, 5 prefix-sharing actions, overwrites, nil targets, repeated runs; rapid state-machine: connect/reconnect/run on one live flow; long walks: self-loop, 2-cycle, 3-node cycle with two targets and a loop inside a nested flow, x every leaf kind, walked for 300/1000/4000 (thorough also 20000/100000) node visits before the exit action; "
        "non-trivial = path length>=3 and (cycle, or overwritten/nil connection present, or >=2nd run of the same object)",
        "oracle: reference interpreter (table walk, last Connect wins, nil/missing ends the flow) - visit log, touched leaves, store path and Flow.Run result must all equal the model",
        "exhaustive over the small-scope graph space named in the property, generated search beyond",
        "trusted: the reference interpreter in wf.go (never calls flyt)",
        T_PBT + "oracle = reference interpreter / model-based state machine",
        [job("main", "^TestC03$", q=4, th=16, tth=3400), job("fuzz", "^$", fuzz="^FuzzC03$", fuzztime=60, tiers=("thorough",), tth=600)]),
    "C04": P("Errors transparent, flows fail-stop", "fault_enumeration",
        "rapid generates failure-free workflow scenarios (depth<=4); for each, EVERY event of its reference path (leaf visit x phase x attempt) is injected as the single failure in 11 error flavours (user errors whose message imitates the library's own \"run: ...\" / \"flow: ...\" frames and that wrap a sentinel of their own, sentinel, %w-wrapped, pointer type, value type, errors wrapping context errors, a non-comparable and two net.Error-like types) plus 'all attempts fail'; about one leaf in eight is a batch node used as a flow member (its prep and post are positions, its items are not); "
        "plus random multi-failure scripts; non-trivial = the failure ends the run at depth>=1 or is absorbed by retry/fallback",
        "oracle (model-free, over the actual trace): err==nil iff every node run on the path ended with a successful post (an error without a single invoked callback is spurious); the returned error matches (the very value in its Unwrap tree, its inner sentinel too, errors.As finds the type) the LAST failing callback of the trace; no callback after the failing node run",
        "fault enumeration over every position of the executed path of each generated scenario",
        "trusted: trace recorder; 'ending callback' is identified as the last callback whose returned error matches",
        "fault-injection enumeration driven by rapid-generated scenarios with shrinking; oracle = errors.Is/As identity + fail-stop predicate over the callback trace",
        [job("main", "^TestC04$", q=4, th=16)]),
    "C05": P("Cancellation of nodes and flows", "fault_enumeration",
        "rapid generates workflow scenarios (single nodes and nested flows, budgets 1..4, with/without retry waits, one leaf in five a batch node used as a flow member); cancellation is injected before the run and inside EVERY callback of the cancellation-free reference run, as cancel() from inside the callback and as a context deadline falling mid-callback (virtual clock); "
        "non-trivial = cancellation lands inside the run and suppresses at least one callback of the reference run",
        "oracle: pre-done => no callback and errors.Is(err, ctx.Err()); after the cancellation instant - located on the judged run's OWN time stamps, the reference run only proposes it - no exec attempt and no prep starts, whatever kind the next node is (cancellation inside a batch node's own callbacks is C11's); the attempt/node-start projection is a prefix of the reference's; if an attempt or node start is missing the error must match ctx.Err(), if only fallback/post are missing the run must not report success",
        "fault enumeration over all cancellation points of each generated scenario, in a synctest bubble (deterministic)",
        "trusted: testing/synctest virtual time; each callback takes 1 virtual second",
        "cancellation-point enumeration over rapid-generated scenarios in synctest bubbles; oracle = prefix-of-reference + ctx-error predicate",
        [job("main", "^TestC05$", q=4, th=16)]),
    "C06": P("Batch results positional; post once", "exploration",
        "cases = gated batch scenarios (n items, c workers, prep payload form, per-item scripts, release schedule). EXHAUSTIVE over all completion orders (replay-based DFS over 'which parked exec next') for the (n,c) pairs listed in exhaustive_subspaces; rapid: n in 0..96 (fixed cases up to 129), c in 0..16, 9 prep payload forms, continue and stop mode, gated random release orders, un-gated random virtual durations, runs struck by a cancellation, second runs of the same node object with another item list, and batches whose items are nil or equal to each other; "
        "non-trivial = c>=2 and completion order differs from index order",
        "oracle: post exactly once, entered with no exec in flight and all n started (strict without stop mode / cancellation; otherwise an item still executing must carry an error in the slot post saw - slots are snapshotted at post time); items element-wise identical to prep's; len(results)==n; slot i == the outcome (value identity / error instance) of item i's own last callback",
        "schedule enumeration: every completion order for n<=8,c<=4 (quick) and n=10,c=5 (thorough)",
        "trusted: synctest quiescence = every started exec has reached its gate",
        "schedule-enumerating property test in synctest bubbles + rapid generation; oracle = positional slot/item identity predicate",
        [job("main", "^TestC06$", q=4, th=16)]),
    "C07": P("Batch: every item once, per-item retry/fallback", "exploration",
        "cases = batch scenarios with independent per-item scripts: EXHAUSTIVE script assignments for n<=2 (quick) / n<=3 (thorough), budget<=2, c in 0..3, fallback on/off, two release orders; rapid: n<=32, budget<=4, c<=8, random release orders, retry waits, un-gated timed runs, and batches whose items carry equal payloads (every exec call returns a distinct value: n calls, n distinct slots); "
        "non-trivial = >=2 distinct item scripts, >=1 failing item, c>=2",
        "oracle: per item the C02 model on its own script (attempt count, numbering, fallback count/arguments, slot) and a differential run of the same script as a single NewNode; total exec calls == sum of model attempts",
        "generated search with exhaustive small scope",
        "trusted: per-item model; item identity decoded from the token each item carries",
        T_PBT + "oracle = per-item reference model + differential against single-node run",
        [job("main", "^TestC07$", q=4, th=16)]),
    "C08": P("Concurrency limit hard and usable", "exploration",
        "cases = gated batches for every c in 0..16 with n=4c+8, all release orders for (n,c) in {(5,2),(6,3),(7,3),(7,4)}, rapid batches (n<=4c+8) and direct WorkerPool scenarios (sizes -1..16, 1..4 submitters, up to 3 Wait rounds), gated or with random virtual durations, plus c-way barrier scenarios; the same untouched batch node object run a second time (every c in 1..16: first run with 0, 1, c-1 or 4c+8 items, then 4c+8 items gated or with a c-way barrier; rapid: first run 0..2c items, second 1..4c+8) - the second run is judged like any run; "
        "non-trivial = n>c>=2 (queue refills) / tasks>3*workers or multiple submitters/rounds",
        "oracle at EVERY quiescent point: in-flight == min(c, unfinished) (upper bound and usability in one equation, re-evaluated after one virtual second without any release before it counts as failed; c==0: exactly one, in item order); atomic high-water mark <= c; c mutually waiting items must complete (else the bubble's deadlock panic is the violation)",
        "schedule exploration with an invariant evaluated at every quiescent point",
        "trusted: synctest.Wait() returns only when every goroutine of the case is durably blocked",
        "gated schedule exploration in synctest bubbles; oracle = in-flight equation at quiescent points + high-water mark + deadlock detection",
        [job("main", "^TestC08$", q=4, th=16), job("race", "^TestC08$", q=1, th=4, race=True)]),
    "C09": P("Stop-on-error; no fake successes", "exploration",
        "cases = gated batches: EVERY position of the first failing item for n<=8 (quick)/16 (thorough), c in 0..4, stop and continue mode, failing item released while the other in-flight items stay parked, two release orders of the rest; all release orders for 4 small cases; rapid: second failing item, budgets 1..3, fallbacks that rescue or not; "
        "non-trivial = stop mode and at least one item after the failing one",
        "oracle: (a) stop mode: c<=1 no exec start after the failing callback; c>=2 no new item start after the quiescent point that follows the failing release; (b) every mode: slot i is the real outcome of an execution of item i that happened, or IsError()",
        "enumeration of failing positions x schedules under the quantifier's own gating restriction",
        "trusted: gating makes 'the failure has been handled' the next quiescent point",
        "gated schedule enumeration in synctest bubbles + rapid; oracle = start-after-failure predicate and slot-genuineness predicate",
        [job("main", "^TestC09$", q=4, th=16)]),
    "C10": P("Flow used as a node == flattened machine", "exploration",
        "cases = rapid-generated hierarchical flows (depth<=4; structured generator that connects (inner flow, action) pairs with high probability + two random generators), inner flows ending by unconnected action, nil connection or error, shared inner flows, repeated runs; "
        "non-trivial = depth>=2 and the parent follows a non-default connection on an inner flow's final action",
        "oracle: differential - the harness flattens the hierarchy (call-path states, successor via inner table -> exit -> parent table -> entry) into a REAL single-level flyt.Flow over fresh wrappers sharing the leaves' behaviours, runs both and requires identical callback sequence, store contents, success/failure; 'same shared store' is probed behaviourally at every callback (a write through its store must be visible through the previous callback's store and vice versa); the reference interpreter must agree too; batch nodes occur as members",
        "differential generated search",
        "trusted: flatten() in c10_test.go",
        "differential property-based testing (nested vs flattened real flows) with rapid shrinking",
        [job("main", "^TestC10$", q=4, th=16)]),
    "C11": P("Cancelling a batch", "fault_enumeration",
        "cancellation injected before the run and from inside the exec of EVERY (item, attempt) for n<=7 (quick)/16 (thorough), c in 0..4, both modes, budgets 1..3, wait in {0,1h}; other in-flight items parked; in-exec cancellation as cancel(), as cancel with a custom cause and as a context deadline expiring during the attempt; rapid on top (random failing items, fallbacks, prep forms); "
        "non-trivial = cancellation strictly inside the run with >=1 item not yet started",
        "oracle: the run returns (a hang = bubble deadlock panic); no new item and no new retry attempt starts after the cancellation's quiescent point; then errors.Is(err, ctx.Err()) or post called exactly once with IsError() in every never-executed slot",
        "fault enumeration over cancellation points in a deterministic bubble",
        "trusted: gating; virtual clock",
        "cancellation-point enumeration in synctest bubbles + rapid; oracle = no-start-after-cancel + slot predicate + termination",
        [job("main", "^TestC11$", q=4, th=16)]),

    "C12": P("Worker pool", "exploration",
        "cases = WorkerPool scenarios in a bubble: every size -1..16 x {0,1,5w+3 tasks, three submitters} x gated/timed x two Wait rounds; rapid: sizes -1..16, 0..500 tasks, 1..4 submitters, 1..3 Submit/Wait rounds, gated release orders or random virtual durations, a late submitter adding tasks while Wait is in progress, occasional long tasks; the same under the race detector with tasks doing plain writes read after Wait; "
        "non-trivial = tasks>3*workers (queue overflows) or >=2 submitters or >=2 rounds",
        "oracle: every task counter == 1; at every quiescent point a goroutine blocked in Wait() has not returned while a submitted task is unfinished; plain writes visible after Wait (race detector: happens-before); after Close the bubble ends clean (a surviving worker = 'blocked goroutines remain' panic); lost task = deadlock panic",
        "schedule exploration in deterministic bubbles + race-detector run",
        "trusted: synctest leak/deadlock detection; Go race detector's happens-before tracking (visibility is decided only on the executions that occur)",
        "gated schedule exploration in synctest bubbles with rapid; oracle = exactly-once counters, Wait-barrier predicate at quiescent points, leak detection, race detector",
        [job("main", "^TestC12$", q=4, th=16), job("race", "^TestC12$", q=2, th=8, race=True)]),
    "C13": P("Shared store linearizable and race-free", "exploration",
        "cases = rapid-generated concurrent programs (2..6 goroutines x 1..8 ops over keys k0..k3: Set, Get, Has, Delete, Len, Keys, GetAll, Merge of 1..4 keys, Merge(nil), Clear, typed getters), each executed 20 times from a barrier on 16 real cores, every recorded history (call/return stamps from one atomic counter) checked by porcupine against a plain map; "
        "plus atomicity stress (generation-stamped Merges of 8..1000 keys and Clears vs spinning GetAll/Keys/Len readers) and disjoint-writer stress (concurrent writes to different keys must all survive); all also under -race; values include typed slices read through getters; non-trivial = history with a multi-key operation overlapping a write of another goroutine",
        "oracle: porcupine linearizability check of each history against the sequential map specification; stress invariant 'every snapshot is all-of-one-generation or empty'; any race-detector report with flyt frames",
        "sampled schedules (the harness cannot own the schedule inside the store's critical sections without editing flyt): statistical evidence, stated as such",
        "trusted: porcupine v1.3.0; the atomic stamp counter gives a sound real-time order; Unknown (timeout) is reported as inconclusive, never as violation",
        "randomised concurrent history generation (rapid) + linearizability checking (porcupine) + invariant stress + race detector",
        [job("main", "^TestC13$", q=4, th=16), job("race", "^TestC13$", q=2, th=8, race=True)]),
    "C14": P("Store equals a map; isolated snapshots", "exploration",
        "cases = rapid-generated operation sequences up to length 200 over keys {\"\", a, é, emoji, a\\x00, 160-char, b, k} and 19 value kinds (nil, NaN, maps, slices, structs, pointers, typed nils, funcs): Set, Delete, Clear, Merge(map|nil|alias of an earlier GetAll snapshot), GetAll, Keys, snapshot mutations (write/delete in returned maps; overwrite/append/sort returned key slices), in-place mutation of value objects the model no longer holds; "
        "non-trivial = a Clear or Merge followed by further writes, and at least one snapshot mutation",
        "oracle: model-based - after EVERY step Len/Keys/GetAll/Has/Get agree with a reference map and with each other; every snapshot ever handed out still equals its expected content; mutating snapshots or Merge arguments never changes the store",
        "model-based state-machine testing",
        "trusted: the reference map; a container that comes back may be the very object or an equal copy (NaN-aware deep equality), other reference kinds by pointer",
        "model-based property testing (rapid, shrinking sequences) against a reference map",
        [job("main", "^TestC14$", q=4, th=16), job("fuzz", "^$", fuzz="^FuzzC14$", fuzztime=60, tiers=("thorough",), tth=600)]),
    "C15": P("Typed accessors total/consistent/faithful", "exploration",
        "cases = value recipes built with reflect: a fixed hostile list (all 12 numeric source kinds x boundary values, NaN/Inf/-0, named types, typed nils, funcs, chans, maps, arrays, anonymous structs containing slices/maps, nested/typed slices, Rec) evaluated exhaustively x every accessor family x {Result, SharedStore}; rapid: random recipes of depth<=3; thorough adds native coverage-guided fuzzing of the recipe decoder; "
        "non-trivial = value is not one of the suite's plain table values (plain small int/float64, string, bool, nil)",
        "oracle: no non-Must accessor panics; AsX/AsXOr/MustX mutually consistent; store getters agree with result accessors; ok exactly for the documented source types with Go's conversion as value (float->int compared only where Go defines it); AsSlice ok iff reflect kind is Slice with the elements of ToSlice; ToSlice(nil) empty, ToSlice(non-slice) = [v]",
        "generated-input search with a reference model written from the doc comments",
        "trusted: the reference conversions in c15_test.go (reflect-based)",
        "property-based testing over reflect-built values (rapid) + native go fuzzing; oracle = documented-semantics reference model + cross-variant consistency",
        [job("main", "^TestC15$", q=4, th=16), job("fuzz", "^$", fuzz="^FuzzC15$", fuzztime=90, tiers=("thorough",), tth=600)]),
    "C16": P("Bind", "exploration",
        "cases = (source recipe, destination form, prepopulated?, via store/result/missing key): 315 hostile sources x 24 destination forms exhaustively; rapid random recipes biased to JSON-marshalable composites; sequences of binds in one process; store sessions in which stored reference values are updated in place between binds of the same key; thorough adds native fuzzing; "
        "non-trivial = destination type differs from the source type, or an error case",
        "oracle: independent reference on twin-built values - own type => *dest = v (unchanged incl. unexported fields; pointers/funcs/chans the very value, maps/slices possibly in a fresh container); otherwise json.Marshal + json.Unmarshal into a twin destination; compare error nil-ness always and destination contents (deep, NaN-aware) after a successful Bind; typed-nil sources only 'no panic, unmodified, store==result'; never panics; source deep-equal to its twin afterwards; store.Bind == Result.Bind on non-nil values",
        "differential generated search against encoding/json",
        "trusted: encoding/json and reflect as the reference",
        "differential property-based testing (rapid + native fuzz) against an encoding/json reference on twin values",
        [job("main", "^TestC16$", q=4, th=16), job("fuzz", "^$", fuzz="^FuzzC16$", fuzztime=90, tiers=("thorough",), tth=600)]),
    "C17": P("Function-style nodes pass values unchanged", "exploration",
        "cases = all 8 Result/Any style combinations x option/builder x fallback x 8 payload kinds x exec{value, error-then-value, error Result with nil error} exhaustively; rapid: single nodes and flows of function-style leaves with random scripts; batch exec functions (Result/Any) incl. error-Result outcomes and pre-made error items; every case also run as its style twin; "
        "non-trivial = mixed styles or nil / error-Result payload",
        "oracle: exec receives prep's payload (identity), post receives the exec phase's payload; an error Result returned by exec with a nil error must reach the post function - a Result-style post with IsError() and that error, never wrapped a second time; Result-style and Any-style twins observe deep-equal payloads and the same outcome",
        "generated search with exhaustive style matrix",
        "trusted: trace recorder; Any-style post receiving nil, the error-carrying Result or the bare error for an error Result is accepted",
        T_PBT + "oracle = payload identity predicate + metamorphic style-twin relation",
        [job("main", "^TestC17$", q=4, th=16)]),
    "C18": P("Success never yields the empty action", "exploration",
        "cases = (a) exhaustive configuration matrix: every leaf kind/style, flow-as-node, batch nodes (9 prep forms x n in 0..3 x c in 0..2 x with/without post x builder/*BatchNode) x post in {empty, default, custom, whitespace-only} x {run directly, routed step of a flow whose default edge leads to a sentinel} (incl. exec path {succeeds, succeeds on retry, fallback recovers} and batches run under an already-cancelled context); (b) rapid: arrangements of leaves of every kind, batch members and flows nested up to depth 4 in which posts answer the empty action at random places (structured hierarchies whose parents branch on inner flows' final actions + random graphs), each run AS A NODE through flyt.Run, 1-2 runs of the same objects; "
        "non-trivial = (a) every distinct configuration, (b) a successful run in which at least one post answered the empty action",
        "oracle: (a) err==nil => action non-empty and == default when post returned empty; in a flow the default-connected sentinel runs when post returned empty or default (what a custom action selects is C01/C03/C10's); (b) metamorphic twin: the same arrangement with every empty post answer replaced by \"default\" - if either run succeeds both must, with the same callbacks in the same order and the same non-empty final action (runs in which both fail are not compared)",
        "exhaustive enumeration of the configuration matrix + metamorphic generated search over nested arrangements",
        "trusted: harness node constructors, trace recorder",
        T_PBT + "oracle = direct predicate on the exhaustive matrix + metamorphic empty/default twin on generated nested flows",
        [job("main", "^TestC18$", q=2, th=16)]),
    "C19": P("Configuration styles equivalent", "exploration",
        "cases = setting sequences over {max retries, wait, batch concurrency, batch error handling, prep/exec/post/fallback function} x 3 values (waits 0, 10.500001 ms - not a whole number of ms or us - and 1 h) x {constructor option (both as NodeOption and as plain func(*BaseNode)), builder method}, for NewNode and NewBatchNode: exhaustive for length<=3 (quick)/<=5 (thorough) over the four scalar parameters, rapid up to length 6 (+2) over all eight; "
        "non-trivial = at least two different forms or an overwritten parameter",
        "oracle (metamorphic): expected configuration = last-wins fold over the actual application order; the sequence as given, its all-option and its all-builder realisation must show equal getters AND equal probe behaviour in a bubble (attempts of a failing item, virtual wait between attempts >= configured, in-flight count at the first quiescent point <= c and equal between the realisations, stop vs continue, which function instance ran); untouched parameters keep the documented defaults; outcome of runs with a failing item and of nodes without an exec function only compared between the realisations",
        "metamorphic generated search with exhaustive small scope",
        "trusted: probe; function options passed to NewBatchNode are outside the asserted domain (silently ignored by that constructor, see DESIGN.md)",
        "metamorphic property-based testing (rapid) + exhaustive short sequences; oracle = last-wins fold, three realisations compared on getters and probe runs",
        [job("main", "^TestC19$", q=4, th=16)]),
    "C20": P("Retry wait honoured and interruptible", "exploration",
        "cases (virtual clock): single nodes - budgets 2..5 x every failure sequence x waits {0.1, 0.999, 1, 1.9, 2, 5, 10, 25, 33.333, 50 ms, 1 h} x {no cancellation, deadline inside the wait after each attempt index} x 3 node kinds exhaustively, rapid beyond; batch items - rapid, sequential and c in 1..4, un-gated attempts with virtual durations, optional deadline; "
        "non-trivial = >=2 attempts actually made with wait>0",
        "oracle on virtual timestamps: start[a+1]-end[a] >= w (waits >= 1 ms); first attempt starts at 0; run ends when the last attempt ends (no wait after it); a deadline that - on the judged run's own timeline - falls into the gap after attempt j: no attempt j+1, errors.Is(err, DeadlineExceeded), return within one virtual minute (decisive for the 1 h wait); per batch item the same on its own timeline (retry attempts only; item starts after a deadline are C11's), and the batch returns within a minute of max(deadline, last callback end)",
        "exhaustive over the quantified single-node space, generated search for batches; exact because the clock is virtual",
        "trusted: testing/synctest virtual time (no wall-clock assertion anywhere)",
        "virtual-time property testing in synctest bubbles (rapid + exhaustive small scope); oracle = exact timestamp equations",
        [job("main", "^TestC20$", q=4, th=16)]),
    "C01": dict(
        title="Node lifecycle",
        level="exploration",
        rule=("cases = workflow scenarios (leaf kind x budget x per-phase outcome script x payload kinds), enumerated exhaustively "
              "for single nodes up to the stated bound and generated by rapid beyond (single nodes with N<=8, and leaves inside "
              "generated flows); a case is non-trivial when at least one phase fails, or the budget is >1, or post returns the "
              "empty action; distinct = distinct FNV-64 hash of the canonical scenario JSON"),
        explanation="oracle: lifecycle-shape and data-threading predicate over the recorded callback trace of every node run, plus the form of Run's return value",
        level_text=("generated-input search against a trace predicate: exhaustive over the single-node script space up to N<=3 (quick) / N<=5 "
                    "(thorough), random beyond; right level because the property is a universally quantified statement over outcome scripts x node kinds"),
        level_note="trusted: the harness's own trace recorder and predicate; payload identity is decided by pointer identity where Go allows it, deep equality otherwise",
        technique="property-based testing: exhaustive small-scope enumeration + rapid random generation with shrinking; oracle = lifecycle/data-threading predicate over callback traces",
        jobs=[job("main", "^TestC01$", q=2, th=16)],
    ),
}

NOT_APPLICABLE = {}
HOOK_COMMITS = []
