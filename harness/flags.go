package harness

import "flag"

func flagLookup(name string) *flag.Flag { return flag.Lookup(name) }
