package harness

// store.go — engine E4: the SharedStore reference model (a plain map) used as C14's
// state-machine model and as porcupine's sequential specification for C13.

import (
	"fmt"
	"math"
	"reflect"
	"sort"
	"strings"

	"github.com/mark3labs/flyt"
)

type StoreOp struct {
	Op   string   `json:"op"`
	Key  string   `json:"key,omitempty"`
	Val  int      `json:"val,omitempty"`  // palette index
	Keys []string `json:"keys,omitempty"` // merge
	Vals []int    `json:"vals,omitempty"`
	Snap int      `json:"snap,omitempty"` // index into snapshots handed out so far (mod len)
	Nil  bool     `json:"nil,omitempty"`  // Merge(nil)
}

func (o StoreOp) String() string {
	switch o.Op {
	case "set":
		return fmt.Sprintf("Set(%q,v%d)", o.Key, o.Val)
	case "merge":
		if o.Nil {
			return "Merge(nil)"
		}
		var p []string
		for i, k := range o.Keys {
			p = append(p, fmt.Sprintf("%q:v%d", k, o.Vals[i%len(o.Vals)]))
		}
		return "Merge{" + strings.Join(p, ",") + "}"
	case "get", "has", "delete", "getint", "getstring", "getintor", "getbool", "getfloat", "getsliceor", "getmapor", "bind":
		return fmt.Sprintf("%s(%q)", o.Op, o.Key)
	}
	return o.Op
}

var storeKeys = []string{"", "a", "é", "🙂", "a\x00", strings.Repeat("long", 40), "b", "k", "a.x", "a.", ".x"}

type sPair struct {
	A int
	B []int
}

// storePalette builds one set of value instances (identity matters for reference kinds).
func storePalette() []any {
	p := &Tok{Tag: "p"}
	m := map[string]any{"x": 1}
	// m/m2, the two []any and the two []int are deep-equal but distinct objects: overwriting one
	// with the other must really store the other (identity is observable by later mutation)
	m2 := map[string]any{"x": 1}
	return []any{nil, 0, 1, -7, "s", "", true, math.NaN(), 3.5, m, []any{1, "two"}, []int{1, 2}, sPair{A: 1, B: []int{2}}, p, (*Tok)(nil), map[string]int(nil), int64(1) << 40, uint8(200), func() {},
		m2, []any{1, "two"}, []int{1, 2}, 0.0, math.Copysign(0, -1), &Tok{Tag: "p"}, map[string]any{"x": map[string]any{"y": 2}}, map[string]any{"z": 5}, map[string]any{"x": map[string]any{"w": 3}}}
}

// sameValue: identity for reference kinds, NaN-aware equality for floats, DeepEqual otherwise.
func sameValue(a, b any) bool {
	if a == nil || b == nil {
		return a == nil && b == nil
	}
	va, vb := reflect.ValueOf(a), reflect.ValueOf(b)
	if va.Type() != vb.Type() {
		return false
	}
	switch va.Kind() {
	case reflect.Float32, reflect.Float64:
		x, y := va.Float(), vb.Float()
		return (x == y && math.Signbit(x) == math.Signbit(y)) || (math.IsNaN(x) && math.IsNaN(y))
	case reflect.Ptr, reflect.Map, reflect.Chan, reflect.Func, reflect.UnsafePointer:
		return va.Pointer() == vb.Pointer()
	case reflect.Slice:
		return va.Pointer() == vb.Pointer() && va.Len() == vb.Len()
	case reflect.Struct:
		for i := 0; i < va.NumField(); i++ {
			if !va.Field(i).CanInterface() {
				return reflect.DeepEqual(a, b)
			}
			if !sameValue(va.Field(i).Interface(), vb.Field(i).Interface()) {
				return false
			}
		}
		return true
	}
	return reflect.DeepEqual(a, b)
}

// sameOrDeep: the very value, or - for containers - an equal copy of it (an implementation may
// keep or hand out its own copy of a map or slice; the statements speak of equal answers).
func sameOrDeep(a, b any) bool { return sameValue(a, b) || deepEq(a, b) }

func mapsSame(a, b map[string]any) string {
	if len(a) != len(b) {
		return fmt.Sprintf("sizes differ: %d vs %d", len(a), len(b))
	}
	for k, v := range a {
		w, okk := b[k]
		if !okk {
			return fmt.Sprintf("key %q missing", k)
		}
		if !sameValue(v, w) {
			return fmt.Sprintf("key %q: %#v vs %#v", k, v, w)
		}
	}
	return ""
}

// mapsSameOrDeep: like mapsSame, but a value that is a deep copy of the expected one is accepted
// too (a GetAll that isolates snapshots at every depth is at least as good as a shallow copy).
func mapsSameOrDeep(a, b map[string]any) string {
	if len(a) != len(b) {
		return fmt.Sprintf("sizes differ: %d vs %d", len(a), len(b))
	}
	for k, v := range a {
		w, okk := b[k]
		if !okk {
			return fmt.Sprintf("key %q missing", k)
		}
		if !sameValue(v, w) && !deepEq(v, w) {
			return fmt.Sprintf("key %q: %#v vs %#v", k, v, w)
		}
	}
	return ""
}

func copyMap(m map[string]any) map[string]any {
	out := make(map[string]any, len(m))
	for k, v := range m {
		out[k] = v
	}
	return out
}

func sortedKeys(m map[string]any) []string {
	out := make([]string, 0, len(m))
	for k := range m {
		out = append(out, k)
	}
	sort.Strings(out)
	return out
}

// storeAgrees compares every read method of the store with the model map.
func storeAgrees(s *flyt.SharedStore, model map[string]any, universe []string) string {
	if got := s.Len(); got != len(model) {
		return fmt.Sprintf("Len()=%d, model has %d keys", got, len(model))
	}
	keys := s.Keys()
	if keys == nil && len(model) == 0 {
		keys = []string{}
	}
	ks := append([]string(nil), keys...)
	sort.Strings(ks)
	if want := sortedKeys(model); !reflect.DeepEqual(ks, want) && !(len(ks) == 0 && len(want) == 0) {
		return fmt.Sprintf("Keys()=%q, model keys %q", ks, want)
	}
	all := s.GetAll()
	if m := mapsSameOrDeep(all, model); m != "" {
		return "GetAll() vs model: " + m
	}
	for _, k := range universe {
		want, inModel := model[k]
		if s.Has(k) != inModel {
			return fmt.Sprintf("Has(%q)=%v, model %v", k, s.Has(k), inModel)
		}
		got, okk := s.Get(k)
		if okk != inModel {
			return fmt.Sprintf("Get(%q) ok=%v, model %v", k, okk, inModel)
		}
		if inModel && !sameOrDeep(got, want) {
			return fmt.Sprintf("Get(%q)=%#v, model %#v", k, got, want)
		}
		if !inModel && got != nil {
			return fmt.Sprintf("Get(%q) of a missing key returned %#v", k, got)
		}
	}
	return ""
}
