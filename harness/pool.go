package harness

// pool.go — gated WorkerPool scenarios in a bubble (C08 direct-pool part, C12).

import (
	"fmt"
	"sort"
	"sync"
	"sync/atomic"
	"testing"
	"testing/synctest"
	"time"

	"github.com/mark3labs/flyt"
	"pgregory.net/rapid"
)

type PoolRound struct {
	Submitters []int `json:"submitters"` // tasks submitted by each submitting goroutine
}

type PoolSc struct {
	Size   int         `json:"size"`
	Rounds []PoolRound `json:"rounds"`
	Gated  bool        `json:"gated"`
	DurMs  []int       `json:"dur_ms,omitempty"` // un-gated: task t sleeps DurMs[t % len] virtual ms
	Sched  []int       `json:"sched,omitempty"`
	// Barrier > 0: the first Barrier tasks of round 0 wait until all of them run simultaneously.
	Barrier int `json:"barrier,omitempty"`
	// Waiters >= 2: a second goroutine calls Wait concurrently with the first one in every round.
	Waiters int `json:"waiters,omitempty"`
	// Late > 0: in every round a second goroutine submits Late more (un-gated) tasks while the
	// waiter is already inside Wait and an earlier task is still running.
	Late int `json:"late,omitempty"`
}

func (p *PoolSc) workers() int {
	if p.Size <= 0 {
		return 1
	}
	return p.Size
}

func (p *PoolSc) total() int {
	n := 0
	for _, r := range p.Rounds {
		for _, k := range r.Submitters {
			n += k
		}
	}
	return n
}

type poolObs struct {
	Counts       []int32 // executions per task
	Plain        []int   // non-atomic writes made by tasks, read by the waiter after Wait
	MaxInflight  int32
	QPFail       string
	WaitEarly    string
	Steps        int
	Releases     int
	VisibleFail  string
	RoundsDone   int
	LateLost      string
	LateSubmitted int32
	Wait2Early string // the same for a second, concurrent waiter (written by that goroutine)
	// APIPanic: Submit / Wait / Close panicked although the pool was used as documented
	APIPanic string
}

// runPool executes the scenario. Must run inside a bubble.
func runPool(sc *PoolSc) *poolObs {
	regular := sc.total()
	total := regular + sc.Late*len(sc.Rounds)
	obs := &poolObs{Counts: make([]int32, total), Plain: make([]int, total)}
	doneFlag := make([]int32, total)
	pool := flyt.NewWorkerPool(sc.Size)
	w := sc.workers()
	var mu sync.Mutex
	var lateWG sync.WaitGroup
	var parkedL []*parked
	wake := make(chan struct{}, 1)
	var inflight, completed int32
	var started int32
	barrierCh := make(chan struct{})
	id := 0
	lateID := regular
	step := 0
	body := func(ri, tid int, gated bool) func() {
		return func() {
			cur := atomic.AddInt32(&inflight, 1)
			for {
				m := atomic.LoadInt32(&obs.MaxInflight)
				if cur <= m || atomic.CompareAndSwapInt32(&obs.MaxInflight, m, cur) {
					break
				}
			}
			atomic.AddInt32(&obs.Counts[tid], 1)
			if ri == 0 && tid < sc.Barrier {
				if int(atomic.AddInt32(&started, 1)) == sc.Barrier {
					close(barrierCh)
				}
				<-barrierCh
			}
			if gated {
				p := &parked{item: tid, gate: make(chan struct{})}
				mu.Lock()
				parkedL = append(parkedL, p)
				mu.Unlock()
				select {
				case wake <- struct{}{}:
				default:
				}
				gateWait(p.gate)
			} else if len(sc.DurMs) > 0 {
				time.Sleep(time.Duration(sc.DurMs[tid%len(sc.DurMs)]) * time.Millisecond)
			}
			obs.Plain[tid] = tid + 1 // plain write: must be visible to the waiter after Wait
			atomic.AddInt32(&inflight, -1)
			atomic.StoreInt32(&doneFlag[tid], 1)
			if tid < regular {
				atomic.AddInt32(&completed, 1)
			}
		}
	}
	for ri, round := range sc.Rounds {
		roundFirst := id
		var subWG sync.WaitGroup
		roundTasks := 0
		for _, k := range round.Submitters {
			first := id
			id += k
			roundTasks += k
			subWG.Add(1)
			k := k
			go func() {
				defer subWG.Done()
				for j := 0; j < k; j++ {
					if p, v := recoverCall(func() { pool.Submit(body(ri, first+j, sc.Gated)) }); p {
						mu.Lock()
						if obs.APIPanic == "" {
							obs.APIPanic = fmt.Sprintf("round %d: Submit panicked: %v", ri, v)
						}
						mu.Unlock()
						return
					}
				}
			}()
		}
		waitReturned := make(chan struct{})
		var waiting int32
		go func() {
			subWG.Wait() // Wait is only legal once the round's Submit calls have returned
			atomic.StoreInt32(&waiting, 1)
			if p, v := recoverCall(pool.Wait); p {
				mu.Lock()
				if obs.APIPanic == "" {
					obs.APIPanic = fmt.Sprintf("round %d: Wait panicked: %v", ri, v)
				}
				mu.Unlock()
			}
			close(waitReturned)
		}()
		roundEnd := roundFirst + roundTasks
		if sc.Waiters >= 2 {
			// a second, concurrent Wait: it too may only return once the round's tasks are done
			lateWG.Add(1)
			go func(ri, lo, hi int) {
				defer lateWG.Done()
				subWG.Wait()
				if p, _ := recoverCall(pool.Wait); p {
					return
				}
				for t := lo; t < hi; t++ {
					if atomic.LoadInt32(&doneFlag[t]) == 0 {
						mu.Lock()
						if obs.Wait2Early == "" {
							obs.Wait2Early = fmt.Sprintf("round %d: a second, concurrent Wait returned while task %d, submitted before it was called, had not finished", ri, t)
						}
						mu.Unlock()
						return
					}
				}
			}(ri, roundFirst, roundEnd)
		}
		lateStarted := false
		qpRetried := 0
		for {
			synctest.Wait()
			returned := false
			select {
			case <-waitReturned:
				returned = true
			default:
			}
			done := int(atomic.LoadInt32(&completed))
			if returned {
				for t := roundFirst; t < roundEnd; t++ {
					if atomic.LoadInt32(&doneFlag[t]) == 0 && obs.WaitEarly == "" {
						obs.WaitEarly = fmt.Sprintf("round %d: Wait returned while task %d, submitted before Wait was called, had not finished (%d of %d done)", ri, t, done, roundEnd)
					}
				}
				break
			}
			select {
			case <-wake:
			default:
			}
			mu.Lock()
			sort.Slice(parkedL, func(i, j int) bool { return parkedL[i].item < parkedL[j].item })
			np := len(parkedL)
			mu.Unlock()
			if sc.Gated && obs.QPFail == "" {
				want := roundEnd - done
				if want > w {
					want = w
				}
				if np != want && qpRetried < 8 {
					// The implementation may be parked on a timer of its own (workers started lazily
					// or one by one, admission by polling): let virtual time pass - 1 s, 2 s, ... 128 s,
					// nothing the harness holds is released meanwhile - and look again.
					time.Sleep(time.Second << qpRetried)
					qpRetried++
					continue
				}
				if np != want {
					obs.QPFail = fmt.Sprintf("round %d, quiescent point %d: %d tasks in flight, want min(workers=%d, unfinished=%d)=%d", ri, step, np, w, roundEnd-done, want)
				}
			}
			if sc.Late > 0 && !lateStarted && atomic.LoadInt32(&waiting) == 1 && np > 0 && np == roundEnd-done && np < w {
				// A second goroutine submits more (quick, un-gated) tasks while Wait is already in
				// progress and an earlier task is still running. Legal use: the WaitGroup counter
				// stays > 0 because every unfinished regular task is parked and none is released
				// until the late submitter has stopped. No queue capacity is assumed: at least one
				// worker is idle (np < workers), so every late task is picked up as it is submitted.
				lateStarted = true
				first := lateID
				lateID += sc.Late
				var lateDone, stopLate int32
				lateWG.Add(1)
				go func() {
					defer lateWG.Done()
					for j := 0; j < sc.Late && atomic.LoadInt32(&stopLate) == 0; j++ {
						if p, v := recoverCall(func() { pool.Submit(body(ri, first+j, false)) }); p {
							mu.Lock()
							if obs.APIPanic == "" {
								obs.APIPanic = fmt.Sprintf("round %d: Submit (while a Wait is in progress) panicked: %v", ri, v)
							}
							mu.Unlock()
							break
						}
						atomic.AddInt32(&obs.LateSubmitted, 1)
					}
					atomic.StoreInt32(&lateDone, 1)
				}()
				synctest.Wait()
				if atomic.LoadInt32(&lateDone) == 0 {
					// a Submit is blocked although a worker is idle: tell the submitter to stop after
					// this call and go on; exactly-once is still checked for what was submitted
					atomic.StoreInt32(&stopLate, 1)
				}
				continue
			}
			if np == 0 {
				select {
				case <-wake:
				case <-waitReturned:
				}
				continue
			}
			choice := 0
			if step < len(sc.Sched) {
				choice = sc.Sched[step] % np
			}
			step++
			mu.Lock()
			p := parkedL[choice]
			parkedL = append(parkedL[:choice], parkedL[choice+1:]...)
			mu.Unlock()
			obs.Releases++
			qpRetried = 0
			close(p.gate)
		}
		// after Wait: the waiter reads the plain writes of every task submitted before it
		for t := roundFirst; t < roundEnd; t++ {
			if obs.Plain[t] != t+1 && obs.VisibleFail == "" {
				obs.VisibleFail = fmt.Sprintf("round %d: effect of task %d not visible after Wait", ri, t)
			}
		}
		obs.RoundsDone++
	}
	// late tasks may still be queued when the last Wait returned early in a broken pool; in a
	// correct one Wait covers them too
	lateWG.Wait() // every Submit call has returned before the pool is closed
	if p, v := recoverCall(func() { pool.Wait(); pool.Close() }); p && obs.APIPanic == "" {
		obs.APIPanic = fmt.Sprintf("final Wait/Close panicked: %v", v)
	}
	// "terminate after Close" is not "be gone when Close returns": workers that poll or notice the
	// shutdown a little later get a virtual minute (the clock stops when this function returns)
	time.Sleep(time.Minute)
	synctest.Wait()
	// late tasks whose Submit returned must have run exactly once (ids are handed out in order,
	// so the first LateSubmitted ids of each late batch are the submitted ones; a batch that was
	// told to stop may have fewer)
	if int(obs.LateSubmitted) == lateID-regular {
		for t := regular; t < lateID; t++ {
			if atomic.LoadInt32(&obs.Counts[t]) != 1 && obs.LateLost == "" {
				obs.LateLost = fmt.Sprintf("late task %d executed %d times", t, obs.Counts[t])
			}
		}
	}
	obs.Counts = obs.Counts[:regular]
	obs.Steps = step
	return obs
}

func judgePool(prop string, sc *PoolSc, obs *poolObs, fail string) Verdict {
	// C12 states exactly-once, the Wait barrier, visibility and termination after Close;
	// C08 (and C19's "size <= 0 means one worker") state the limit and its usability.
	c12 := prop == "C12"
	if fail != "" && (c12 || !goroutinesRemain(fail)) {
		return bad(prop+":bubble", "%s", fail)
	}
	if obs == nil {
		return inconclusive("pool scenario produced no observation")
	}
	if c12 {
		if obs.APIPanic != "" {
			return bad(prop+":api-panic", "%s (size %d, %d rounds)", obs.APIPanic, sc.Size, len(sc.Rounds))
		}
		if obs.WaitEarly != "" {
			return bad(prop+":wait-early", "%s", obs.WaitEarly)
		}
		if obs.Wait2Early != "" {
			return bad(prop+":wait-early", "%s", obs.Wait2Early)
		}
		for t, c := range obs.Counts {
			if c != 1 {
				return bad(prop+":exactly-once", "task %d executed %d times (pool size %d, %d tasks)", t, c, sc.Size, len(obs.Counts))
			}
		}
		if obs.VisibleFail != "" {
			return bad(prop+":visibility", "%s", obs.VisibleFail)
		}
		if obs.LateLost != "" {
			return bad(prop+":exactly-once-late", "%s", obs.LateLost)
		}
	} else {
		if int(obs.MaxInflight) > sc.workers() {
			return bad(prop+":limit", "%d tasks in flight at once on a pool of %d workers", obs.MaxInflight, sc.workers())
		}
		if obs.QPFail != "" {
			return bad(prop+":usable", "%s", obs.QPFail)
		}
	}
	subs := 0
	for _, r := range sc.Rounds {
		if len(r.Submitters) > subs {
			subs = len(r.Submitters)
		}
	}
	cls := []string{}
	if sc.Gated {
		cls = append(cls, "gated")
	} else {
		cls = append(cls, "timed")
	}
	if sc.total() > 3*sc.workers() {
		cls = append(cls, "queue-overflows")
	}
	if subs >= 2 {
		cls = append(cls, "multi-submitter")
	}
	if len(sc.Rounds) >= 2 {
		cls = append(cls, "multi-round")
	}
	if sc.Size <= 0 {
		cls = append(cls, "size<=0")
	}
	if sc.Late > 0 {
		cls = append(cls, "submit-during-wait")
	}
	return ok(sc.total() > 3*sc.workers() || subs >= 2 || len(sc.Rounds) >= 2, cls...)
}

func checkPool(prop string) func(*testing.T, PoolSc) Verdict {
	return func(t *testing.T, sc PoolSc) Verdict {
		var obs *poolObs
		fail := Bubble(t, func() { obs = runPool(&sc) })
		return judgePool(prop, &sc, obs, fail)
	}
}

func genPool(maxTasks int) func(rt *rapid.T) PoolSc {
	return func(rt *rapid.T) PoolSc {
		var p PoolSc
		p.Size = rapid.IntRange(-1, 16).Draw(rt, "size")
		nr := rapid.IntRange(1, 3).Draw(rt, "rounds")
		budget := rapid.IntRange(0, maxTasks).Draw(rt, "tasks")
		for r := 0; r < nr; r++ {
			ns := rapid.IntRange(1, 4).Draw(rt, "submitters")
			var round PoolRound
			for s := 0; s < ns; s++ {
				k := rapid.IntRange(0, max(0, budget/(nr*ns)+1)).Draw(rt, "k")
				round.Submitters = append(round.Submitters, k)
			}
			p.Rounds = append(p.Rounds, round)
		}
		p.Gated = rapid.Bool().Draw(rt, "gated")
		if p.Gated && rapid.Bool().Draw(rt, "late") {
			p.Late = rapid.IntRange(1, 5).Draw(rt, "nlate")
		}
		// (Waiters >= 2 - a second goroutine in Wait at the same time - is supported by the executor and
		// by replays but NOT generated: concurrent waiters are not in C12's quantifier, the WorkerPool
		// documentation is silent about them, and a pool whose Wait serves one caller is legitimate.)
		if p.Gated {
			ns := rapid.IntRange(0, 60).Draw(rt, "nsched")
			for i := 0; i < ns; i++ {
				p.Sched = append(p.Sched, rapid.IntRange(0, 15).Draw(rt, "s"))
			}
		} else {
			nd := rapid.IntRange(0, 8).Draw(rt, "ndur")
			for i := 0; i < nd; i++ {
				d := rapid.IntRange(0, 30).Draw(rt, "d")
				if rapid.IntRange(0, 9).Draw(rt, "long") == 0 {
					d = rapid.IntRange(200, 900).Draw(rt, "dlong") // a backlog that outlasts any short patience of Submit
				}
				p.DurMs = append(p.DurMs, d)
			}
		}
		return p
	}
}
