package harness

import (
	"fmt"
	"testing"

	"pgregory.net/rapid"
)

// C08 — the concurrency limit is a hard bound and is fully usable.

// c08QP is evaluated by the controller at every quiescent point of a gated batch (budget 1,
// no waits): the number of exec callbacks in flight must be exactly min(c, unfinished items);
// for c == 0 exactly one, and in item order.
func c08QP(x *batchExec) string {
	x.mu.Lock()
	defer x.mu.Unlock()
	n, c := x.sc.n(), x.sc.C
	completed, startedExec := 0, 0
	for _, e := range x.events {
		if e.Kind == "exec" {
			startedExec++
			if e.Ended {
				completed++
			}
		}
	}
	if startedExec == 0 && len(x.parked) == 0 {
		return "" // before the first item (prep) — nothing to say
	}
	np := len(x.parked)
	if c <= 0 {
		if n-completed > 0 {
			if np != 1 {
				return fmt.Sprintf("sequential batch: %d items in flight at a quiescent point (completed %d of %d)", np, completed, n)
			}
			if x.parked[0].item != completed {
				return fmt.Sprintf("sequential batch: item %d running after %d completed items (order must be 0,1,2,...)", x.parked[0].item, completed)
			}
		}
		return ""
	}
	want := n - completed
	if want > c {
		want = c
	}
	if np != want {
		return fmt.Sprintf("concurrency %d: %d item executions in flight at quiescent point %d, want min(c, unfinished=%d)=%d", c, np, x.epoch, n-completed, want)
	}
	return ""
}

func judgeC08Batch(sc *BatchSc, x *batchExec, br batchRun, fail string) Verdict {
	if fail != "" && !goroutinesRemain(fail) {
		return bad("C08:bubble", "%s (concurrency %d, %d items, barrier %d)", fail, sc.C, sc.n(), sc.Barrier)
	}
	if br.Rejected {
		return ok(false, "prep-form-rejected")
	}
	if br.Panic != "" {
		return bad("C08:panic", "%s", br.Panic)
	}
	if x.qpFail != "" {
		return bad("C08:inflight", "%s", x.qpFail)
	}
	limit := sc.C
	if limit <= 0 {
		limit = 1
	}
	if x.maxIn > limit {
		return bad("C08:limit", "high-water mark %d item executions in flight with concurrency %d", x.maxIn, sc.C)
	}
	if sc.C <= 0 {
		// strictly one at a time in item order
		last := -1
		for _, e := range br.Events {
			if e.Kind != "exec" {
				continue
			}
			if e.Item < last {
				return bad("C08:order", "sequential batch executed item %d after item %d", e.Item, last)
			}
			last = e.Item
		}
		for i := 1; i < len(br.Events); i++ {
			a, b := br.Events[i-1], br.Events[i]
			if a.Kind == "exec" && b.Kind == "exec" && b.Start < a.End {
				return bad("C08:overlap", "sequential batch: %s started before %s returned", b, a)
			}
		}
	}
	n := sc.n()
	for i, evs := range itemEvents(br.Events, n) {
		if len(evs) == 0 {
			return bad("C08:lost", "item %d never executed", i)
		}
	}
	cls := []string{fmt.Sprintf("c=%d", min(sc.C, 9))}
	if sc.Barrier > 0 {
		cls = append(cls, "barrier")
	}
	if sc.Gated {
		cls = append(cls, "gated")
	} else {
		cls = append(cls, "timed")
	}
	if sc.stop() {
		cls = append(cls, "stop-mode")
	}
	return ok(n > sc.C && sc.C >= 2, cls...)
}

func c08Normalise(sc *BatchSc) {
	sc.Budget, sc.WaitMs, sc.PrepErr, sc.HasFb = 1, 0, 0, false
	if sc.stop() {
		items := append([]ItemScript(nil), sc.Items...)
		for i := range items {
			it := items[i]
			it.Exec = []Outcome{{Pay: i % numPayKinds}}
			items[i] = it
		}
		sc.Items = items
	}
}

func checkC08Batch(t *testing.T, sc BatchSc) Verdict {
	if sc.Second != nil {
		// the same node object run again with a different concurrency: the limit in force is the
		// one configured now, not the one of the previous run
		sec := *sc.Second
		sec.Barrier = 0
		c08Normalise(&sec)
		sc.Second = &sec
		c08Normalise(&sc)
		sc.Barrier = 0
		var x *batchExec
		var br batchRun
		eff := sec
		eff.PrepForm, eff.ExecAny, eff.ErrBoth, eff.NoPost, eff.Gated, eff.Second = sc.PrepForm, sc.ExecAny, sc.ErrBoth, sc.NoPost, sc.Gated, nil
		fail := Bubble(t, func() {
			x = newBatchExec(&sc)
			if sc.Gated {
				x.qp = c08QP
			}
			first := x.run()
			if first.Panic != "" || x.qpFail != "" {
				br = first
				return
			}
			x.reconfigure(&eff)
			br = x.run()
		})
		v := judgeC08Batch(&eff, x, br, fail)
		if v.Violation != "" {
			v.Violation = "second run of the same batch node after changing the concurrency: " + v.Violation
			v.Fingerprint += ":rerun"
		}
		v.Classes = append(v.Classes, "reconfigured-rerun")
		return v
	}
	sc.Budget, sc.WaitMs, sc.PrepErr, sc.HasFb = 1, 0, 0, false
	if sc.stop() {
		// in stop mode the in-flight equation only holds as long as nothing fails: make every item succeed
		items := append([]ItemScript(nil), sc.Items...)
		for i := range items {
			it := items[i]
			it.Exec = []Outcome{{Pay: i % numPayKinds}}
			items[i] = it
		}
		sc.Items = items
	}
	var qp func(*batchExec) string
	if sc.Gated && sc.Barrier == 0 {
		qp = c08QP
	}
	x, br, fail := runBatchCase(t, &sc, qp)
	return judgeC08Batch(&sc, x, br, fail)
}

// checkC08Again: the same, untouched batch node object is run a second time with another item
// list (a batch node inside a loop, a node re-used for the next request): the second run is held
// to C08 like any run - at most c in flight, and all of min(c, n) blocking executions in flight
// together - whatever the first run's size was. sc describes the FIRST run (never gated, its
// items succeed at once); sc.Second supplies the second run's items, gating and barrier.
func checkC08Again(t *testing.T, sc BatchSc) Verdict {
	if sc.Second == nil {
		return checkC08Batch(t, sc)
	}
	c08Normalise(&sc)
	sc.Gated, sc.Barrier, sc.Sched = false, 0, nil
	eff := sc
	eff.N, eff.Items, eff.Sched, eff.Gated, eff.Barrier, eff.PostAct = sc.Second.N, sc.Second.Items, sc.Second.Sched, sc.Second.Gated, sc.Second.Barrier, sc.Second.PostAct
	eff.Second = nil
	c08Normalise(&eff)
	items := append([]ItemScript(nil), eff.Items...)
	for i := range items {
		items[i].PreErr = false
	}
	eff.Items = items
	if eff.Gated {
		eff.Barrier = 0
	}
	var x *batchExec
	var br batchRun
	refused := false
	fail := Bubble(t, func() {
		x = newBatchExec(&sc)
		first := x.run()
		if first.Panic != "" || first.Rejected || first.Err != nil {
			br, refused = first, true
			return
		}
		x.rerun(&eff)
		if eff.Gated {
			x.qp = c08QP
		}
		br = x.run()
	})
	if refused {
		return ok(false, "first-run-did-not-succeed")
	}
	if x != nil && br.Err != nil && br.Panic == "" && len(br.Events) == 0 {
		return ok(false, "second-run-refused") // whether a node may be run twice is not C08's clause
	}
	v := judgeC08Batch(&eff, x, br, fail)
	if v.Violation != "" {
		v.Violation = fmt.Sprintf("second run of the same, untouched batch node (first run: %d items, this run: %d): %s", sc.n(), eff.n(), v.Violation)
		v.Fingerprint += ":again"
	}
	v.Classes = append(v.Classes, "second-run")
	if sc.n() < sc.C {
		v.Classes = append(v.Classes, "first-run-smaller-than-c")
	}
	return v
}

func genC08Again(rt *rapid.T) BatchSc {
	c := rapid.IntRange(1, 16).Draw(rt, "c")
	g := batchGen{MinN: 0, MaxN: 2 * c, MaxC: 0, MaxBudget: 1, Gated: 0, PrepForms: []int{PFResults, PFAnySlice, PFIntSlice}, Modes: []int{0, 1, 2}}
	b := g.gen(rt)
	b.C = c
	g2 := batchGen{MinN: 1, MaxN: 4*c + 8, MaxC: 0, MaxBudget: 1, Gated: 2, MaxSched: 80, PrepForms: []int{b.PrepForm}, Modes: []int{0}}
	s := g2.gen(rt)
	if !s.Gated && rapid.Bool().Draw(rt, "barrier") {
		s.Barrier = min(c, s.n())
	}
	b.Second = &s
	return b
}

func genC08Batch(rt *rapid.T) BatchSc {
	c := rapid.IntRange(0, 16).Draw(rt, "c")
	g := batchGen{MinN: 1, MaxN: 4*c + 8, MaxC: 0, MaxBudget: 1, PFail: 200, Gated: 2, MaxSched: 80, PrepForms: []int{PFResults, PFAnySlice, PFIntSlice}, Modes: []int{0, 1, 2}}
	b := g.gen(rt)
	b.C = c
	if b.Second != nil {
		b.Second.C = rapid.IntRange(0, 16).Draw(rt, "c2")
		b.Second.Gated = b.Gated
	}
	if !b.Gated && c >= 1 && rapid.Bool().Draw(rt, "barrier") {
		// usability: min(c, n) items that all wait for each other must run simultaneously
		b.Barrier = min(c, b.n())
	}
	return b
}

func TestC08(t *testing.T) {
	r := newRun(t, "C08")
	defer r.finish()
	// every c in 0..16 with n = 4c+8, all gates closed until quiescence, index-order and a fixed shuffled release
	k := 0
	for c := 0; c <= 16; c++ {
		for _, sched := range [][]int{nil, {7, 3, 11, 2, 5, 13, 1, 8, 6, 4, 9, 12, 10, 3, 3, 2, 1, 15, 14}} {
			for _, barrier := range []bool{false, true} {
				if !r.mine(k) {
					k++
					continue
				}
				k++
				b := c06Base(4*c+8, c, PFResults)
				b.Sched = sched
				b.Mode = []int{0, 2, 1}[(c+k)%3]
				if barrier {
					if c == 0 {
						continue
					}
					b.Gated, b.Barrier = false, c
				}
				evalCase(r, "each-c", b, checkC08Batch)
			}
		}
	}
	r.exhaustive("every concurrency c in 0..16 with n=4c+8 items: gated (in-flight count checked at every quiescent point, two release orders) and un-gated with a c-way barrier (all c must run simultaneously)")
	// exhaustive release orders for small (n,c)
	for si, sp := range [][2]int{{5, 2}, {6, 3}, {7, 3}, {7, 4}, {8, 4}, {9, 3}, {8, 2}, {9, 4}}[:r.pick(4, 8)] {
		if !r.mine(si) {
			continue
		}
		base := c06Base(sp[0], sp[1], PFAnySlice)
		cnt, complete := forEachSchedule(t, base, r.pick(3000, 0), c08QP, func(sc BatchSc, x *batchExec, br batchRun, fail string) bool {
			v := judgeC08Batch(&sc, x, br, fail)
			if r.record("enum-schedules", sc, v) {
				r.finish()
				t.Fatalf("VIOLATION C08: %s", v.Violation)
			}
			return true
		})
		if complete {
			r.exhaustive(fmt.Sprintf("all %d release orders for n=%d,c=%d with the in-flight equation checked at every quiescent point", cnt, sp[0], sp[1]))
		}
	}
	// the same untouched node run twice: a small first run (fewer items than c) must not shrink
	// what the second run may use, a large one must not widen it
	k = 0
	for c := 1; c <= 16; c++ {
		for _, n1 := range []int{0, 1, c - 1, 4*c + 8} {
			for _, barrier := range []bool{false, true} {
				if n1 < 0 || (n1 == c-1 && c <= 2) {
					continue
				}
				if r.mine(k) {
					b := c06Base(n1, c, PFResults)
					b.Gated = false
					for i := range b.Items {
						b.Items[i].Exec[0].Err = 0
					}
					sec := c06Base(4*c+8, c, PFResults)
					if barrier {
						sec.Gated, sec.Barrier = false, c
					}
					b.Second = &sec
					evalCase(r, "each-c-again", b, checkC08Again)
				}
				k++
			}
		}
	}
	r.note("each-c-again: %d cases - every c in 1..16, first run with 0, 1, c-1 or 4c+8 items, then the same node object (untouched) with 4c+8 items, gated (in-flight equation at every quiescent point) or with a c-way barrier", k)
	rapidPart(r, "rand-again", r.pick(600, 12000), genC08Again, checkC08Again)
	rapidPart(r, "rand-batch", r.pick(1500, 25000), genC08Batch, checkC08Batch)
	rapidPart(r, "rand-pool", r.pick(1500, 25000), genC08Pool, checkPool("C08"))
}

func genC08Pool(rt *rapid.T) PoolSc {
	p := genPool(120)(rt)
	if !p.Gated && rapid.Bool().Draw(rt, "barrier") && len(p.Rounds) > 0 && len(p.Rounds[0].Submitters) > 0 {
		first := 0
		for _, k := range p.Rounds[0].Submitters {
			first += k
		}
		// with several submitters the first `workers` task ids need not be the first to be
		// picked up, so the barrier is only sound with a single submitter
		if len(p.Rounds[0].Submitters) == 1 {
			p.Barrier = min(p.workers(), first)
		}
	}
	return p
}

func init() {
	registerReplay("C08", checkC08Batch)
	registerReplaySub("C08", "each-c-again", checkC08Again)
	registerReplaySub("C08", "rand-again", checkC08Again)
	registerReplaySub("C08", "rand-pool", checkPool("C08"))
	registerReplaySub("C08", "large-c-pool", checkPool("C08"))
}
