package harness

import (
	"encoding/json"
	"fmt"
	"reflect"
	"testing"

	"github.com/mark3labs/flyt"
	"pgregory.net/rapid"
)

// C16 — Bind: identity for matching types, JSON round-trip otherwise, never panics.

type C16Case struct {
	Src    Recipe `json:"src"`
	Dest   string `json:"dest"` // destination form, see buildDest
	Prepop bool   `json:"prepop,omitempty"`
	Via    string `json:"via"` // result | store | store-missing | both
}

var destForms = []string{"same", "elem", "any", "anyptr", "tagged", "loose", "partial", "withslice", "int", "float64", "string", "bool",
	"strslice", "intslice", "anyslice", "mapstrany", "mapstrint", "ptrptr-tagged", "ptr-same", "nilptr", "nonptr", "nil", "taggedslice", "array2", "iface-err"}

// buildDest returns a fresh destination for the source value v. Called twice it gives
// identical twins (one for flyt, one for the encoding/json reference).
func buildDest(form string, v any, prepop bool) any {
	switch form {
	case "same":
		if v == nil {
			return new(any)
		}
		return reflect.New(reflect.TypeOf(v)).Interface()
	case "elem": // a *T value bound into a T destination (pointer to the pointee type)
		if v == nil || reflect.TypeOf(v).Kind() != reflect.Ptr {
			return new(Loose)
		}
		d := reflect.New(reflect.TypeOf(v).Elem())
		return d.Interface()
	case "ptr-same": // **T for a T value: element type differs from the value's type
		if v == nil {
			return new(*int)
		}
		return reflect.New(reflect.PointerTo(reflect.TypeOf(v))).Interface()
	case "any":
		var a any
		if prepop {
			a = "old"
		}
		return &a
	case "anyptr": // interface holding a non-nil pointer: json stores into the pointed-to value
		var a any = &Loose{ID: 5, Name: "old"}
		return &a
	case "tagged":
		d := &Tagged{}
		if prepop {
			*d = Tagged{ID: 99, Name: "old", secret: 3}
		}
		return d
	case "loose":
		d := &Loose{}
		if prepop {
			*d = Loose{ID: 99, Name: "old", Extra: []int{9, 9, 9}}
		}
		return d
	case "partial":
		d := &Partial{}
		if prepop {
			d.Name = "old"
		}
		return d
	case "withslice":
		d := &WithSlice{}
		if prepop {
			*d = WithSlice{A: []int{7, 7, 7}, M: map[string]int{"old": 1}}
		}
		return d
	case "int":
		d := new(int)
		if prepop {
			*d = 99
		}
		return d
	case "float64":
		return new(float64)
	case "string":
		d := new(string)
		if prepop {
			*d = "old"
		}
		return d
	case "bool":
		return new(bool)
	case "strslice":
		d := &[]string{}
		if prepop {
			*d = []string{"o", "l", "d"}
		}
		return d
	case "intslice":
		d := new([]int)
		if prepop {
			*d = []int{9, 9, 9, 9}
		}
		return d
	case "anyslice":
		return new([]any)
	case "mapstrany":
		d := &map[string]any{}
		if prepop {
			(*d)["old"] = 1
		}
		return d
	case "mapstrint":
		d := new(map[string]int)
		if prepop {
			*d = map[string]int{"old": 1}
		}
		return d
	case "ptrptr-tagged":
		var p *Tagged
		if prepop {
			p = &Tagged{ID: 1, Name: "old", secret: 2}
		}
		return &p
	case "taggedslice":
		return new([]Tagged)
	case "array2":
		return new([2]int)
	case "iface-err":
		return new(error)
	case "nilptr":
		return (*Tagged)(nil)
	case "nonptr":
		return Tagged{}
	case "nil":
		return nil
	}
	panic("unknown dest form " + form)
}

// refBind is the independent reference: what the documented behaviour amounts to,
// expressed with encoding/json and reflect only.
func refBind(v any, present bool, dest any, viaResult bool) (isErr bool) {
	if !present {
		return true
	}
	if viaResult && v == nil {
		return true
	}
	rv := reflect.ValueOf(dest)
	if !rv.IsValid() || rv.Kind() != reflect.Ptr || rv.IsNil() {
		return true
	}
	if v != nil && reflect.TypeOf(v) == rv.Type().Elem() {
		rv.Elem().Set(reflect.ValueOf(v))
		return false
	}
	b, err := json.Marshal(v)
	if err != nil {
		return true
	}
	return json.Unmarshal(b, dest) != nil
}

func checkC16(t *testing.T, c C16Case) Verdict {
	var src, twin any
	if p, _ := recoverCall(func() { src, twin = c.Src.build(), c.Src.build() }); p {
		return Verdict{Classes: []string{"unbuildable"}}
	}
	vias := []string{c.Via}
	if c.Via == "both" {
		vias = []string{"result", "store"}
	}
	type outcome struct {
		isErr bool
		dest  any
	}
	var outs []outcome
	sameType := src != nil && c.Dest == "same"
	for _, via := range vias {
		dFlyt := buildDest(c.Dest, src, c.Prepop)
		dRef := buildDest(c.Dest, src, c.Prepop)
		var err error
		var pmsg string
		present := true
		switch via {
		case "result":
			pmsg = guard("Result.Bind", func() { err = flyt.NewResult(src).Bind(dFlyt) })
		case "store":
			s := flyt.NewSharedStore()
			s.Set("k", src)
			pmsg = guard("SharedStore.Bind", func() { err = s.Bind("k", dFlyt) })
		case "store-missing":
			s := flyt.NewSharedStore()
			s.Set("other", src)
			present = false
			pmsg = guard("SharedStore.Bind(missing)", func() { err = s.Bind("k", dFlyt) })
		}
		if pmsg != "" {
			return bad("C16:panic:"+via, "source %s -> dest %s: %s", describeVal(src), c.Dest, pmsg)
		}
		if typedNil(src) {
			// nil pointers, maps, slices, funcs, channels: whether such a value counts as "a nil
			// value" (error) or goes through JSON null is left open; it must not panic, must not
			// be modified, and store and result must agree (checked below)
			if !deepEq(src, twin) {
				return bad("C16:source-modified", "Bind modified the source value: %#v, was %#v", src, twin)
			}
			outs = append(outs, outcome{err != nil, dFlyt})
			continue
		}
		if via == "store" && src == nil {
			// a nil stored under a key: the statement speaks about non-nil values only; what Bind
			// does here (today: JSON null, destination untouched) is not asserted - it must not panic
			outs = append(outs, outcome{err != nil, dFlyt})
			continue
		}
		refErr := refBind(src, present, dRef, via == "result")
		if (err != nil) != refErr {
			return bad("C16:error-mismatch:"+via, "source %s (%#v) -> dest form %s via %s: Bind error=%v, reference (own type => assign, else json.Marshal+Unmarshal) error=%v", describeVal(src), src, c.Dest, via, err, refErr)
		}
		// destination contents (after a failed Bind the destination is unspecified, as usual in Go)
		if err == nil && !deepEq(dFlyt, dRef) {
			return bad("C16:dest-mismatch:"+via, "source %s (%#v) -> dest form %s via %s: destination is %#v, reference gives %#v", describeVal(src), src, c.Dest, via, deref(dFlyt), deref(dRef))
		}
		if sameType && err == nil {
			// identity: the destination holds the value itself, unchanged (incl. unexported fields, same reference)
			got := reflect.ValueOf(dFlyt).Elem().Interface()
			if !sameValue(got, src) && !deepEq(got, src) {
				return bad("C16:identity", "binding into a destination of the value's own type %s did not copy it unchanged: %#v vs %#v", describeVal(src), got, src)
			}
			switch reflect.ValueOf(src).Kind() {
			case reflect.Ptr, reflect.Func, reflect.Chan: // (a map or slice may arrive in a fresh container)
				if !sameValue(got, src) {
					return bad("C16:identity-ref", "binding a %s into its own type must yield the same reference", describeVal(src))
				}
			}
		}
		// the stored value is never modified
		if !deepEq(src, twin) {
			return bad("C16:source-modified", "Bind modified the source value: %#v, was %#v", src, twin)
		}
		outs = append(outs, outcome{err != nil, dFlyt})
	}
	if len(outs) == 2 && src != nil {
		if outs[0].isErr != outs[1].isErr || (!outs[0].isErr && !deepEq(outs[0].dest, outs[1].dest)) {
			return bad("C16:store-vs-result", "store.Bind and result.Bind disagree on %s -> %s", describeVal(src), c.Dest)
		}
	}
	nontrivial := !sameType || (len(outs) > 0 && outs[0].isErr)
	cls := []string{"dest:" + c.Dest, "via:" + c.Via}
	if len(outs) > 0 && outs[0].isErr {
		cls = append(cls, "error-case")
	}
	return ok(nontrivial, cls...)
}

// typedNil: a non-nil interface holding a nil pointer, map, slice, func or channel.
func typedNil(v any) bool {
	if v == nil {
		return false
	}
	switch rv := reflect.ValueOf(v); rv.Kind() {
	case reflect.Ptr, reflect.Map, reflect.Slice, reflect.Func, reflect.Chan, reflect.UnsafePointer:
		return rv.IsNil()
	}
	return false
}

func deref(p any) any {
	rv := reflect.ValueOf(p)
	if rv.IsValid() && rv.Kind() == reflect.Ptr && !rv.IsNil() {
		return rv.Elem().Interface()
	}
	return p
}

func genC16(rt *rapid.T) C16Case {
	c := C16Case{Src: genRecipe(rt, 3)}
	// bias towards marshalable composite sources
	if uniform(rt, 3, "composite") == 0 {
		c.Src = Recipe{K: rapid.SampledFrom([]string{"map", "Tagged", "TaggedPtr", "Loose", "WithSlice", "TaggedSlice", "struct", "anyslice", "Partial"}).Draw(rt, "ck"),
			N: hostileInts[uniform(rt, len(hostileInts), "n")], S: "nm", Keys: []string{"id", "name", "ID", "Name", "Extra", "A"},
			Elems: []Recipe{numRecipe("int", "7"), {K: "string", S: "bob"}, numRecipe("float64", "3"), {K: "string", S: "x"}, {K: "intslice", Elems: []Recipe{numRecipe("int", "1")}}, {K: "intslice", Elems: []Recipe{numRecipe("int", "4")}}}}
	}
	c.Dest = destForms[uniform(rt, len(destForms), "dest")]
	c.Prepop = rapid.Bool().Draw(rt, "prepop")
	c.Via = rapid.SampledFrom([]string{"both", "both", "result", "store", "store-missing"}).Draw(rt, "via")
	return c
}

// C16Seq: several binds in a row in one process and on one store - state must not leak from
// one Bind call into the next (a failed bind must not poison later ones).
type C16Seq struct {
	Steps []C16Case `json:"steps"`
}

func checkC16Seq(t *testing.T, s C16Seq) Verdict {
	nontrivial := false
	failedBefore := false
	for i, c := range s.Steps {
		v := checkC16(t, c)
		if v.Violation != "" {
			v.Violation = fmt.Sprintf("step %d of %d (earlier failed binds: %v): %s", i, len(s.Steps), failedBefore, v.Violation)
			v.Fingerprint += ":seq"
			return v
		}
		for _, cl := range v.Classes {
			if cl == "error-case" {
				if i < len(s.Steps)-1 {
					nontrivial = true
				}
				failedBefore = true
			}
		}
	}
	return ok(nontrivial, "sequence")
}

func genC16Seq(rt *rapid.T) C16Seq {
	n := rapid.IntRange(2, 6).Draw(rt, "nsteps")
	var s C16Seq
	for i := 0; i < n; i++ {
		c := genC16(rt)
		if uniform(rt, 2, "marshalable") == 0 {
			// a value that marshals fine, bound into a destination that cannot take it (decode
			// error) or into one that can
			c.Src = Recipe{K: []string{"string", "Tagged", "map", "intslice", "Loose"}[uniform(rt, 5, "sk")], S: "txt", N: "4", Keys: []string{"id", "name"},
				Elems: []Recipe{numRecipe("int", "1"), {K: "string", S: "n"}}}
			c.Dest = []string{"int", "tagged", "loose", "mapstrany", "strslice", "any", "string"}[uniform(rt, 7, "dk")]
		}
		s.Steps = append(s.Steps, c)
	}
	return s
}

// C16Sess: one long-lived store; values are set, updated IN PLACE through references the
// caller still holds, and bound repeatedly: every Bind must reflect the value as it is now.
type SessStep struct {
	Op     string `json:"op"` // set | mutate | bind
	Key    string `json:"key"`
	Src    Recipe `json:"src,omitempty"`
	Dest   string `json:"dest,omitempty"`
	Prepop bool   `json:"prepop,omitempty"`
}

type C16Sess struct {
	Steps []SessStep `json:"steps"`
}

func mutateInPlace(v any, i int) bool {
	switch x := v.(type) {
	case map[string]any:
		x["mutated"] = i
		x["name"] = fmt.Sprintf("changed-%d", i)
		return true
	case []any:
		if len(x) > 0 {
			x[0] = i
			return true
		}
	case []int:
		if len(x) > 0 {
			x[0] = i
			return true
		}
	case *Tagged:
		if x != nil {
			x.ID, x.Name = i, fmt.Sprintf("changed-%d", i)
			return true
		}
	case map[string]int:
		if x != nil {
			x["mutated"] = i
			return true
		}
	}
	return false
}

func checkC16Sess(t *testing.T, sc C16Sess) Verdict {
	s := flyt.NewSharedStore()
	cur := map[string]any{}
	mutated, rebound := false, false
	bound := map[string]int{}
	for i, st := range sc.Steps {
		switch st.Op {
		case "set":
			var v any
			if p, _ := recoverCall(func() { v = st.Src.build() }); p {
				continue
			}
			s.Set(st.Key, v)
			cur[st.Key] = v
		case "mutate":
			if v, present := cur[st.Key]; present && mutateInPlace(v, i) {
				if bound[st.Key] > 0 {
					mutated = true
				}
			}
		case "bind":
			// the value as the store reports it NOW (a store that keeps its own copy of a container
			// does not see in-place updates made through the caller's reference; one that keeps the
			// caller's object does - either way Bind must agree with Get)
			v, present := s.Get(st.Key)
			if _, set := cur[st.Key]; set != present {
				return bad("C16:session-get", "step %d: Get(%q) present=%v after the key was set=%v", i, st.Key, present, set)
			}
			if typedNil(v) || (present && v == nil) {
				continue
			}
			dF := buildDest(st.Dest, v, st.Prepop)
			dR := buildDest(st.Dest, v, st.Prepop)
			var err error
			if m := guard("SharedStore.Bind", func() { err = s.Bind(st.Key, dF) }); m != "" {
				return bad("C16:panic:session", "step %d: %s", i, m)
			}
			refErr := refBind(v, present, dR, false)
			if (err != nil) != refErr {
				return bad("C16:session-error", "step %d: Bind(%q -> %s) error=%v, reference on the CURRENT value error=%v (binds of this key so far: %d)", i, st.Key, st.Dest, err, refErr, bound[st.Key])
			}
			if err == nil && !deepEq(dF, dR) {
				return bad("C16:session-stale", "step %d: Bind(%q -> %s) gave %#v, the JSON round-trip of the value as it is now gives %#v (binds of this key so far: %d; value was updated in place: %v)", i, st.Key, st.Dest, deref(dF), deref(dR), bound[st.Key], mutated)
			}
			if present && v != nil {
				d2 := buildDest(st.Dest, v, st.Prepop)
				err2 := flyt.NewResult(v).Bind(d2)
				if (err2 != nil) != (err != nil) || (err == nil && !deepEq(d2, dF)) {
					return bad("C16:session-store-vs-result", "step %d: store.Bind and result.Bind disagree on key %q -> %s", i, st.Key, st.Dest)
				}
			}
			if bound[st.Key] > 0 && mutated {
				rebound = true
			}
			bound[st.Key]++
		}
	}
	return ok(rebound, "session")
}

func genC16Sess(rt *rapid.T) C16Sess {
	keys := []string{"a", "b", "c"}
	srcs := []Recipe{
		{K: "map", Keys: []string{"id", "name", "ID", "Name"}, Elems: []Recipe{numRecipe("int", "7"), {K: "string", S: "bob"}, numRecipe("float64", "3"), {K: "string", S: "x"}}},
		{K: "TaggedPtr", N: "3", S: "nm"}, {K: "anyslice", Elems: []Recipe{numRecipe("int", "1"), {K: "string", S: "two"}}},
		{K: "intslice", Elems: []Recipe{numRecipe("int", "1"), numRecipe("int", "2")}}, {K: "mapint", Keys: []string{"a", "b"}}, {K: "Tagged", N: "4", S: "val"}, {K: "string", S: "plain"},
	}
	dests := []string{"tagged", "loose", "mapstrany", "any", "anyslice", "intslice", "mapstrint", "same", "partial", "string"}
	n := rapid.IntRange(3, 14).Draw(rt, "n")
	var s C16Sess
	for i := 0; i < n; i++ {
		st := SessStep{Key: keys[uniform(rt, len(keys), "key")]}
		switch uniform(rt, 5, "op") {
		case 0:
			st.Op, st.Src = "set", srcs[uniform(rt, len(srcs), "src")]
		case 1, 2:
			st.Op = "mutate"
		default:
			st.Op, st.Dest, st.Prepop = "bind", dests[uniform(rt, len(dests), "dest")], rapid.Bool().Draw(rt, "prepop")
		}
		if i == 0 {
			st.Op, st.Src = "set", srcs[uniform(rt, len(srcs), "src0")]
		}
		s.Steps = append(s.Steps, st)
	}
	return s
}

func TestC16(t *testing.T) {
	r := newRun(t, "C16")
	defer r.finish()
	hv := hostileValues()
	k := 0
	for _, rc := range hv {
		for _, d := range destForms {
			for _, pre := range []bool{false, true} {
				if !r.thorough() && pre && k%3 != 0 {
					k++
					continue
				}
				if r.mine(k) {
					evalCase(r, "hostile-x-dest", C16Case{Src: rc, Dest: d, Prepop: pre, Via: "both"}, checkC16)
				}
				k++
			}
		}
	}
	for i, rc := range hv {
		if r.mine(i) {
			evalCase(r, "missing-key", C16Case{Src: rc, Dest: "same", Via: "store-missing"}, checkC16)
		}
	}
	r.exhaustive(fmt.Sprintf("%d hostile source values x %d destination forms (own type, **T, *any empty/prepopulated/holding a pointer, compatible/incompatible structs, scalars, slices, maps, typed nil pointer, non-pointer, nil) x store and result, plus the missing-key case", len(hv), len(destForms)))
	rapidPart(r, "rand", r.pick(6000, 100000), genC16, checkC16)
	rapidPart(r, "sequences", r.pick(3000, 40000), genC16Seq, checkC16Seq)
	rapidPart(r, "store-session", r.pick(3000, 40000), genC16Sess, checkC16Sess)
}

func FuzzC16(f *testing.F) {
	f.Add([]byte{0})
	f.Add([]byte("tagged-loose-nan"))
	f.Fuzz(rapid.MakeFuzz(func(rt *rapid.T) {
		c := genC16(rt)
		v := checkC16(nil, c)
		if v.Violation != "" {
			writeFuzzReplay("C16", c, v)
			rt.Fatalf("VIOLATION C16: %s", v.Violation)
		}
	}))
}

func init() {
	registerReplay("C16", checkC16)
	registerReplaySub("C16", "sequences", checkC16Seq)
	registerReplaySub("C16", "store-session", checkC16Sess)
}
