package harness

// batch.go — engine E2: gated batch scenarios executed inside a synctest bubble.
//
// Every exec callback can park on a gate; the controller waits for quiescence
// (synctest.Wait), inspects the state, opens one gate chosen by the scenario's schedule
// and repeats. Completion orders are therefore enumerated, not hoped for.

import (
	"context"
	"errors"
	"fmt"
	"sort"
	"strconv"
	"strings"
	"sync"
	"testing/synctest"
	"time"

	"github.com/mark3labs/flyt"
)

// Prep payload forms.
const (
	PFResults   = iota // builder WithPrepFunc -> []flyt.Result
	PFAnySlice         // CustomNode prep (Any style) -> []any
	PFTokSlice         // CustomNode prep -> []*Tok (reflection path of ToSlice)
	PFIntSlice         // CustomNode prep -> []int
	PFStrSlice         // CustomNode prep -> []string
	PFSingle           // CustomNode prep -> one *Tok (n forced to 1)
	PFNil              // CustomNode prep -> nil (n forced to 0)
	PFResultsCN        // CustomNode prep (Result style) whose value is a []flyt.Result
	PFMapSlice         // CustomNode prep -> []map[string]any
	numPrepForms
)

type ItemScript struct {
	// Exec outcome per attempt (attempt a uses Exec[min(a,len-1)]). Err 1..4 = Go error of that
	// flavour; Err 6 = (Result-style exec only) an error Result returned with a nil error.
	Exec   []Outcome `json:"exec"`
	Fb     Outcome   `json:"fb"`
	PreErr bool      `json:"pre_err,omitempty"` // item is a pre-made error Result (PFResults / PFResultsCN only)
	DurMs  int       `json:"dur_ms,omitempty"`  // un-gated mode: virtual duration of each attempt
}

type CancelPoint struct {
	Before  bool   `json:"before,omitempty"` // context done before Run
	Item    int    `json:"item"`
	Attempt int    `json:"attempt"`
	Flavor  string `json:"flavor"` // cancel | deadline
}

type BatchSc struct {
	PrepForm int          `json:"prep_form"`
	N        int          `json:"n"`
	C        int          `json:"c"`
	Mode     int          `json:"mode"` // 0 unset (default), 1 continue, 2 stop
	Budget   int          `json:"budget"`
	WaitMs   int          `json:"wait_ms,omitempty"`
	WaitUs   int          `json:"wait_us,omitempty"` // > 0: sub-millisecond wait, overrides WaitMs
	HasFb    bool         `json:"has_fb,omitempty"`
	ExecAny  bool         `json:"exec_any,omitempty"`
	ErrBoth  bool         `json:"err_both,omitempty"` // Result-style exec reports failures as (NewErrorResult(err), err)
	CfgBits  int          `json:"cfg_bits,omitempty"` // bit i set: setting i given as constructor option, else builder method
	Items    []ItemScript `json:"items"`
	PrepErr  int          `json:"prep_err,omitempty"`
	PostErr  int          `json:"post_err,omitempty"`
	PostAct  string       `json:"post_act"`
	NoPost   bool         `json:"no_post,omitempty"` // no post function installed
	Gated    bool         `json:"gated"`
	Sched    []int        `json:"sched,omitempty"`
	// Prefer: items whose parked callbacks are released first whenever one of them is parked
	// (C09: the failing item is released while the other in-flight items stay parked).
	Prefer []int `json:"prefer,omitempty"`
	Cancel   *CancelPoint `json:"cancel,omitempty"`
	// Second, if set: after the first run the same node object is reconfigured to these
	// settings (N, C, Mode, Budget, WaitMs, Items, Sched, CfgBits are taken from it) and run again;
	// the second run is judged against the new settings.
	Second *BatchSc `json:"second,omitempty"`
	Barrier  int          `json:"barrier,omitempty"` // first Barrier items wait until all of them have started (usability of the limit)
	// DeadlineMs > 0: the context carries a deadline that many virtual ms after the run starts.
	DeadlineMs int `json:"deadline_ms,omitempty"`
	// LiveSlackMs > 0: the context carries a deadline that lies that many ms BEYOND the natural
	// end of the run (measured on a deadline-free reference run of the same scenario).
	LiveSlackMs int `json:"live_slack_ms,omitempty"`
}

func (b *BatchSc) n() int {
	switch b.PrepForm {
	case PFSingle:
		return 1
	case PFNil:
		return 0
	}
	return b.N
}

func (b *BatchSc) budget() int {
	if b.Budget < 1 {
		return 1
	}
	return b.Budget
}

func (b *BatchSc) stop() bool { return b.Mode == 2 }

func (b *BatchSc) wait() time.Duration {
	if b.WaitUs > 0 {
		return time.Duration(b.WaitUs) * time.Microsecond
	}
	return time.Duration(b.WaitMs) * time.Millisecond
}

func (b *BatchSc) item(i int) *ItemScript {
	if len(b.Items) == 0 {
		return &ItemScript{}
	}
	return &b.Items[i%len(b.Items)]
}

func (it *ItemScript) outcome(a int) Outcome {
	if len(it.Exec) == 0 {
		return Outcome{}
	}
	if a >= len(it.Exec) {
		a = len(it.Exec) - 1
	}
	return it.Exec[a]
}

// ---------------------------------------------------------------------------------

type BEv struct {
	Seq        int
	Kind       string // prep | exec | fb | post
	Item       int
	Attempt    int
	Epoch      int // number of quiescent points seen by the controller when the callback started
	Start, End time.Duration
	Ended      bool
	EndSeq     int // order in which callbacks returned
	EndEpoch   int // quiescent points seen when the callback returned
	InVal      any
	InIsErr    bool
	InErr      error // exec: the item Result's error; fb: the error handed to the fallback
	Ret        any
	RetErr     error
	RetResErr  error // exec returned an error Result carrying this error (with nil error)
	CtxDone    bool  // ctx.Err() != nil when the callback started
}

func (e BEv) String() string {
	s := fmt.Sprintf("%s(i%d", e.Kind, e.Item)
	if e.Kind == "exec" {
		s += fmt.Sprintf(",a%d", e.Attempt)
	}
	s += fmt.Sprintf(")@e%d", e.Epoch)
	if e.RetErr != nil || e.RetResErr != nil {
		s += "!"
	}
	return s
}

type parked struct {
	item, attempt int
	gate          chan struct{}
}

type batchExec struct {
	sc        *BatchSc
	cnMissing bool // the implementation has no exported embedded CustomNode to install callbacks through
	swapped   bool // the node's embedded CustomNode was replaced (fallback / non-[]Result prep forms)
	mu        sync.Mutex
	events    []BEv
	parked    []*parked
	wake      chan struct{}
	epoch     int
	inflight  int
	maxIn     int
	attempts  []int
	started   int // distinct items started (attempt 0)
	barrierCh chan struct{}
	cancel    context.CancelFunc
	cancelled bool
	cancelEpoch int
	cancelAt  time.Duration
	t0        time.Time
	toks      []*Tok
	runNo     int
	itemErrs  []error
	prepItems []flyt.Result // what the prep callback produced, when it is a []Result form
	prepAny   any
	postCalls int
	postItems [][]flyt.Result
	postRes   [][]flyt.Result
	postStore []*flyt.SharedStore
	postInflight []int // in-flight exec callbacks at the moment post was entered
	postStarted  []int // items started at the moment post was entered
	endCount  int
	releases  []string
	optCounts []int // number of parked callbacks available at each scheduling step
	// qp, if set, is called by the controller at every quiescent point (run not finished).
	qp func(x *batchExec) string
	qpFail string
	unattributed int // fallback calls whose item could not be identified
	// exec calls whose argument is none of the items prep produced (an undocumented prep form that
	// the implementation itemises by a rule of its own, e.g. a []Result wrapped element-wise)
	unattributedExec int
	node    flyt.Node
	builder *flyt.BatchNodeBuilder
	store   *flyt.SharedStore
}

func newBatchExec(sc *BatchSc) *batchExec {
	n := sc.n()
	x := &batchExec{sc: sc, wake: make(chan struct{}, 1), attempts: make([]int, n+1), barrierCh: make(chan struct{}), t0: time.Now(), cancelEpoch: -1}
	for i := 0; i < n; i++ {
		x.toks = append(x.toks, &Tok{Tag: strconv.Itoa(i)})
		x.itemErrs = append(x.itemErrs, fmt.Errorf("preerr:%d", i))
	}
	x.node = x.build()
	return x
}

func (x *batchExec) now() time.Duration { return time.Since(x.t0) }

func (x *batchExec) itemValue(i int) any {
	switch x.sc.PrepForm {
	case PFIntSlice:
		return i
	case PFStrSlice:
		return strconv.Itoa(i)
	case PFMapSlice:
		return map[string]any{"i": i}
	}
	return x.toks[i]
}

// decode maps the Result an exec/fallback callback received back to the item index.
func (x *batchExec) decode(r flyt.Result) int {
	if r.IsError() {
		s := r.Error().Error()
		if strings.HasPrefix(s, "preerr:") {
			i, _ := strconv.Atoi(s[7:])
			return i
		}
		return -1
	}
	switch v := r.Value().(type) {
	case *Tok:
		i, err := strconv.Atoi(v.Tag)
		if err != nil || i < 0 || i >= len(x.toks) || x.toks[i] != v {
			return -1 // not one of THIS run's items (e.g. a token of an earlier run of the same node)
		}
		return i
	case int:
		return v
	case string:
		i, err := strconv.Atoi(v)
		if err != nil {
			return -1
		}
		return i
	case map[string]any:
		i, _ := v["i"].(int)
		return i
	}
	return -1
}

// itemIs checks that r is exactly item i as prep produced it.
func (x *batchExec) itemIs(r flyt.Result, i int) string {
	if x.prepItems != nil {
		want := x.prepItems[i]
		if r.IsError() != want.IsError() || !sameErr(r.Error(), want.Error()) || !samePayload(r.Value(), want.Value()) {
			return fmt.Sprintf("got %s, prep produced %s", describeResult(r), describeResult(want))
		}
		return ""
	}
	if r.IsError() {
		return fmt.Sprintf("got %s, prep produced a plain value", describeResult(r))
	}
	if x.decode(r) != i {
		return fmt.Sprintf("got %s, prep produced item %d here", describeResult(r), i)
	}
	if t, isTok := r.Value().(*Tok); isTok && t != x.toks[i] {
		return fmt.Sprintf("got a different *Tok than prep produced for item %d", i)
	}
	return ""
}

func (x *batchExec) prepPayload() any {
	n := x.sc.n()
	switch x.sc.PrepForm {
	case PFResults, PFResultsCN:
		out := make([]flyt.Result, n)
		for i := range out {
			if x.sc.item(i).PreErr {
				out[i] = flyt.NewErrorResult(x.itemErrs[i])
			} else {
				out[i] = flyt.NewResult(x.toks[i])
			}
		}
		x.prepItems = out
		return out
	case PFAnySlice:
		out := make([]any, n)
		for i := range out {
			out[i] = x.toks[i]
		}
		return out
	case PFTokSlice:
		out := make([]*Tok, n)
		copy(out, x.toks)
		return out
	case PFIntSlice:
		out := make([]int, n)
		for i := range out {
			out[i] = i
		}
		return out
	case PFStrSlice:
		out := make([]string, n)
		for i := range out {
			out[i] = strconv.Itoa(i)
		}
		return out
	case PFMapSlice:
		out := make([]map[string]any, n)
		for i := range out {
			out[i] = map[string]any{"i": i}
		}
		return out
	case PFSingle:
		return x.toks[0]
	}
	return nil
}

func (x *batchExec) begin(ev BEv) int {
	x.mu.Lock()
	defer x.mu.Unlock()
	ev.Seq = len(x.events)
	ev.Epoch = x.epoch
	ev.Start = x.now()
	x.events = append(x.events, ev)
	return ev.Seq
}

func (x *batchExec) finish(seq int, f func(e *BEv)) {
	x.mu.Lock()
	defer x.mu.Unlock()
	e := &x.events[seq]
	e.End = x.now()
	e.Ended = true
	e.EndEpoch = x.epoch
	e.EndSeq = x.endCount
	x.endCount++
	if f != nil {
		f(e)
	}
}

func (x *batchExec) prepCb(ctx context.Context, s *flyt.SharedStore) (any, error) {
	seq := x.begin(BEv{Kind: "prep", Item: -1, CtxDone: ctx.Err() != nil})
	if x.sc.PrepErr != 0 {
		err := mkErr(x.sc.PrepErr, "batchprep")
		x.finish(seq, func(e *BEv) { e.RetErr = err })
		return nil, err
	}
	p := x.prepPayload()
	x.prepAny = p
	x.finish(seq, nil)
	return p, nil
}

// execCb is the body of the user's exec function for one item attempt.
// It returns (payload, goError, errorResultError).
func (x *batchExec) execCb(ctx context.Context, r flyt.Result) (any, error, error) {
	idx := x.decode(r)
	x.mu.Lock()
	if idx < 0 {
		x.unattributedExec++
	}
	a := 0
	if idx >= 0 && idx < len(x.attempts) {
		a = x.attempts[idx]
		x.attempts[idx]++
	}
	if a == 0 {
		x.started++
		if x.sc.Barrier > 0 && x.started == x.sc.Barrier {
			close(x.barrierCh)
		}
	}
	x.inflight++
	if x.inflight > x.maxIn {
		x.maxIn = x.inflight
	}
	x.mu.Unlock()
	ev := BEv{Kind: "exec", Item: idx, Attempt: a, InVal: r.Value(), InIsErr: r.IsError(), InErr: r.Error(), CtxDone: ctx.Err() != nil}
	seq := x.begin(ev)
	if idx >= 0 && idx < x.sc.Barrier && a == 0 {
		<-x.barrierCh // all of the first Barrier items must be in flight together
	}
	if x.sc.Gated {
		p := &parked{item: idx, attempt: a, gate: make(chan struct{})}
		x.mu.Lock()
		x.parked = append(x.parked, p)
		x.mu.Unlock()
		select {
		case x.wake <- struct{}{}:
		default:
		}
		gateWait(p.gate)
	} else if idx >= 0 {
		if d := x.sc.item(idx).DurMs; d > 0 {
			time.Sleep(time.Duration(d) * time.Millisecond)
		}
	}
	if cp := x.sc.Cancel; cp != nil && !cp.Before && cp.Flavor == "deadline" && cp.Item == idx && cp.Attempt == a {
		// the context ends by its deadline while this attempt is in progress
		if dl, has := ctx.Deadline(); has {
			time.Sleep(time.Until(dl) + time.Millisecond)
		}
		x.mu.Lock()
		x.cancelled = true
		x.cancelEpoch = x.epoch
		x.cancelAt = x.now()
		x.mu.Unlock()
	}
	if cp := x.sc.Cancel; cp != nil && !cp.Before && cp.Flavor != "deadline" && cp.Item == idx && cp.Attempt == a {
		x.mu.Lock()
		x.cancelled = true
		x.cancelEpoch = x.epoch
		x.cancelAt = x.now()
		x.mu.Unlock()
		x.cancel()
	}
	var ret any
	var err, resErr error
	if idx >= 0 {
		o := x.sc.item(idx).outcome(a)
		switch {
		case o.Err == 6 && !x.sc.ExecAny:
			resErr = mkErr(1, fmt.Sprintf("reserr:i%d.a%d", idx, a))
		case o.Err != 0 && o.Err != 6:
			err = mkErr(o.Err, fmt.Sprintf("i%d.a%d", idx, a))
		default:
			ret = mkPayload(o.Pay, fmt.Sprintf("r%d.a%d", idx, a))
		}
	}
	x.mu.Lock()
	x.inflight--
	x.mu.Unlock()
	x.finish(seq, func(e *BEv) { e.Ret, e.RetErr, e.RetResErr = ret, err, resErr })
	return ret, err, resErr
}

func (x *batchExec) fbCb(p any, inErr error) (any, error) {
	// the item may arrive as the Result wrapper (what the batch path does today) or as the
	// raw item value (what a single node's fallback gets): both identify the item
	idx := -1
	isRes := false
	var val any
	if r, okk := p.(flyt.Result); okk {
		idx, isRes, val = x.decode(r), true, r.Value()
	} else {
		idx, val = x.decode(flyt.NewResult(p)), p
	}
	seq := x.begin(BEv{Kind: "fb", Item: idx, InVal: val, InIsErr: !isRes, InErr: inErr})
	var ret any
	var err error
	if idx < 0 {
		// The fallback was handed something from which the item cannot be told (e.g. the raw,
		// nil value of a pre-made error item). The harness cannot attribute the call to a script;
		// the whole case is then skipped by the judges. Hand the error on so that nothing is faked.
		x.mu.Lock()
		x.unattributed++
		x.mu.Unlock()
		err = inErr
	}
	if idx >= 0 {
		o := x.sc.item(idx).Fb
		switch {
		case o.Err == 5:
			err = inErr
		case o.Err != 0:
			err = mkErr(o.Err, fmt.Sprintf("fb%d", idx))
		default:
			ret = mkPayload(o.Pay, fmt.Sprintf("fb%d", idx))
		}
		if err != nil && o.Pay%2 == 1 {
			ret = p // a failing fallback may hand a value back together with its error; the error still counts
		}
	}
	x.finish(seq, func(e *BEv) { e.Ret, e.RetErr = ret, err })
	return ret, err
}

func (x *batchExec) postCb(ctx context.Context, s *flyt.SharedStore, items, results []flyt.Result) (flyt.Action, error) {
	seq := x.begin(BEv{Kind: "post", Item: -1, CtxDone: ctx.Err() != nil})
	x.mu.Lock()
	x.postCalls++
	// what post saw, frozen at the moment of the call (late writers must not change the record)
	x.postItems = append(x.postItems, append([]flyt.Result(nil), items...))
	x.postRes = append(x.postRes, append([]flyt.Result(nil), results...))
	x.postStore = append(x.postStore, s)
	x.postInflight = append(x.postInflight, x.inflight)
	x.postStarted = append(x.postStarted, x.started)
	x.mu.Unlock()
	if x.sc.PostErr == 12 || x.sc.PostErr == 13 {
		// the idiomatic "fail the batch with the first item error": post's error IS (12) or wraps
		// (13) one of this batch's own item errors
		var err error
		for _, r := range results {
			if r.IsError() {
				err = r.Error()
				break
			}
		}
		if err == nil {
			err = mkErr(1, "batchpost-noitemerr")
		} else if x.sc.PostErr == 13 {
			err = fmt.Errorf("batch post: first item error: %w", err)
		}
		x.finish(seq, func(e *BEv) { e.RetErr = err })
		return "", err
	}
	if x.sc.PostErr != 0 {
		err := mkErr(x.sc.PostErr, "batchpost")
		x.finish(seq, func(e *BEv) { e.RetErr = err })
		return "", err
	}
	x.finish(seq, nil)
	return flyt.Action(x.sc.PostAct), nil
}

// build constructs the real flyt batch node for the scenario.
func (x *batchExec) build() flyt.Node {
	sc := x.sc
	bit := func(i int) bool { return sc.CfgBits&(1<<i) != 0 }
	var opts []any
	if bit(0) {
		opts = append(opts, flyt.WithMaxRetries(sc.budget()))
	}
	if bit(1) {
		opts = append(opts, flyt.WithWait(sc.wait()))
	}
	if bit(2) {
		opts = append(opts, flyt.WithBatchConcurrency(sc.C))
	}
	if bit(3) && sc.Mode != 0 {
		opts = append(opts, flyt.WithBatchErrorHandling(sc.Mode == 1))
	}
	b := newBatchNode(opts)
	// A fallback for batch items: through a documented builder method if this implementation has
	// one (today it has none), otherwise through the embedded CustomNode.
	fbByBuilder := false
	if sc.HasFb {
		for _, name := range []string{"WithExecFallbackFunc", "WithFallbackFunc", "WithExecFallback"} {
			if nb, ok := setFallback(b, name, x.fbCb); ok {
				b, fbByBuilder = nb, true
				break
			}
		}
	}
	needCN := (sc.HasFb && !fbByBuilder) || (sc.PrepForm != PFResults)
	if needCN {
		var cnOpts []any
		cnOpts = append(cnOpts, opts...) // the replacement CustomNode carries its own BaseNode
		if sc.HasFb && !fbByBuilder {
			cnOpts = append(cnOpts, flyt.WithExecFallbackFunc(x.fbCb))
		}
		switch sc.PrepForm {
		case PFResults:
		case PFResultsCN:
			cnOpts = append(cnOpts, flyt.WithPrepFunc(func(ctx context.Context, s *flyt.SharedStore) (flyt.Result, error) {
				v, err := x.prepCb(ctx, s)
				if err != nil {
					return flyt.Result{}, err
				}
				return flyt.NewResult(v), nil
			}))
		default:
			cnOpts = append(cnOpts, flyt.WithPrepFuncAny(x.prepCb))
		}
		src, ok1 := embedded(newNode(cnOpts), "CustomNode")
		dst, ok2 := embedded(b, "CustomNode")
		if ok1 && ok2 && src.Type() == dst.Type() {
			dst.Set(src)
			x.swapped = true
		} else {
			x.cnMissing = true // no such route in this implementation: the case cannot be set up
		}
	}
	if !bit(0) {
		b = b.WithMaxRetries(sc.budget())
	}
	if !bit(1) {
		b = b.WithWait(sc.wait())
	}
	if !bit(2) {
		b = b.WithBatchConcurrency(sc.C)
	}
	if !bit(3) && sc.Mode != 0 {
		b = b.WithBatchErrorHandling(sc.Mode == 1)
	}
	if sc.PrepForm == PFResults {
		b = b.WithPrepFunc(func(ctx context.Context, s *flyt.SharedStore) ([]flyt.Result, error) {
			v, err := x.prepCb(ctx, s)
			if err != nil {
				return nil, err
			}
			return v.([]flyt.Result), nil
		})
	}
	if sc.ExecAny {
		b = b.WithExecFuncAny(func(ctx context.Context, p any) (any, error) {
			// Any style: rebuild the Result view for decoding (error items arrive as nil)
			ret, err, _ := x.execCb(ctx, flyt.NewResult(p))
			return ret, err
		})
	} else {
		b = b.WithExecFunc(func(ctx context.Context, r flyt.Result) (flyt.Result, error) {
			ret, err, resErr := x.execCb(ctx, r)
			if err != nil {
				if sc.ErrBoth {
					return flyt.NewErrorResult(err), err
				}
				return flyt.Result{}, err
			}
			if resErr != nil {
				return flyt.NewErrorResult(resErr), nil
			}
			return flyt.NewResult(ret), nil
		})
	}
	if !sc.NoPost {
		b = b.WithPostFunc(x.postCb)
	}
	x.builder = b
	if bit(4) {
		if f, ok := embedded(b, "BatchNode"); ok { // *BatchNode rather than the builder
			if n, isNode := f.Interface().(flyt.Node); isNode && !f.IsNil() {
				return n
			}
		}
	}
	return b
}

// reconfigure changes the settings of the SAME node object (builder methods / options applied
// to the embedded BaseNode later) and resets the recorder, so that the node can be run again:
// configuration must be read at run time, not cached from an earlier run.
func (x *batchExec) reconfigure(next *BatchSc) {
	b := x.builder
	b = b.WithMaxRetries(next.budget())
	b = b.WithWait(next.wait())
	b = b.WithBatchConcurrency(next.C)
	b = b.WithBatchErrorHandling(next.Mode != 2)
	x.builder = b
	x.rerun(next)
}

// rerun prepares the SAME, untouched node object for another run in which prep yields next's
// items (a batch node inside a loop is run again and again; how many items prep finds differs).
func (x *batchExec) rerun(next *BatchSc) {
	n := next.n()
	x.mu.Lock()
	x.sc = next
	x.runNo++
	// fresh item tokens and pre-made errors: anything left over from the earlier run is foreign now
	x.toks, x.itemErrs = nil, nil
	for i := 0; i < n; i++ {
		x.toks = append(x.toks, &Tok{Tag: strconv.Itoa(i)}) // same tags, new objects
		x.itemErrs = append(x.itemErrs, fmt.Errorf("preerr:%d", i))
	}
	x.events, x.parked, x.epoch, x.inflight, x.maxIn, x.started = nil, nil, 0, 0, 0, 0
	x.attempts = make([]int, n+1)
	x.postCalls, x.postItems, x.postRes, x.postStore, x.postInflight, x.postStarted = 0, nil, nil, nil, nil, nil
	x.releases, x.optCounts, x.endCount, x.qpFail = nil, nil, 0, ""
	x.cancelled, x.cancelEpoch = false, -1
	x.barrierCh = make(chan struct{})
	x.t0 = time.Now()
	x.mu.Unlock()
}

type batchRun struct {
	Action   flyt.Action
	Err      error
	CtxErr   error
	Panic    string
	Finished time.Duration
	Events   []BEv
	// Rejected: prep returned its items without error, nothing else was called and Run returned an
	// error although the context was live - the implementation does not accept this (undocumented)
	// form of prep result. No property speaks about that; the judges skip such a case.
	Rejected bool
}

// run executes the scenario under the controller. Must be called inside a bubble.
func (x *batchExec) run() batchRun {
	var ctx context.Context
	var cancel context.CancelFunc
	cp := x.sc.Cancel
	ctx, cancel = context.WithCancel(context.Background())
	if cp != nil && cp.Flavor == "cause" {
		// cancelled with a custom cause: ctx.Err() is still context.Canceled and that is what the
		// run's error has to match
		c2, cancelCause := context.WithCancelCause(context.Background())
		ctx, cancel = c2, func() { cancelCause(fmt.Errorf("custom cancellation cause")) }
	}
	x.cancel = cancel
	defer cancel()
	if cp != nil && !cp.Before && cp.Flavor == "deadline" {
		c2, cancel2 := context.WithDeadline(ctx, x.t0.Add(10*time.Minute))
		defer cancel2()
		ctx = c2
	}
	if cp != nil && cp.Before {
		if cp.Flavor == "deadline" {
			c2, cancel2 := context.WithDeadline(ctx, time.Now())
			defer cancel2()
			ctx = c2
		} else {
			cancel()
		}
		x.cancelled = true
		x.cancelEpoch = 0
	}
	if x.sc.DeadlineMs > 0 {
		c2, cancel2 := context.WithDeadline(ctx, x.t0.Add(time.Duration(x.sc.DeadlineMs)*time.Millisecond))
		defer cancel2()
		ctx = c2
		x.cancelAt = time.Duration(x.sc.DeadlineMs) * time.Millisecond
	}
	x.store = flyt.NewSharedStore()
	var br batchRun
	done := make(chan struct{})
	go func() {
		defer close(done)
		p, v := recoverCall(func() { br.Action, br.Err = flyt.Run(ctx, x.node, x.store) })
		if p {
			br.Panic = fmt.Sprint(v)
		}
		br.Finished = x.now()
	}()
	step := 0
	qpRetried := 0
	for {
		synctest.Wait()
		select {
		case <-done:
			br.CtxErr = ctx.Err()
			br.Events = x.snapshot()
			x.drain()
			br.Rejected = x.rejected(br)
			return br
		default:
		}
		select {
		case <-x.wake:
		default:
		}
		x.mu.Lock()
		x.epoch++
		sort.Slice(x.parked, func(i, j int) bool {
			if x.parked[i].item != x.parked[j].item {
				return x.parked[i].item < x.parked[j].item
			}
			return x.parked[i].attempt < x.parked[j].attempt
		})
		np := len(x.parked)
		x.mu.Unlock()
		if x.qp != nil && x.qpFail == "" {
			if f := x.qp(x); f != "" && qpRetried < 8 {
				// the implementation may be parked on a timer of its own (workers started lazily or
				// one by one, admission by polling): let virtual time pass - 1 s, 2 s, ... 128 s, no
				// gate is opened meanwhile - and look again
				time.Sleep(time.Second << qpRetried)
				qpRetried++
				continue
			} else if f != "" {
				x.qpFail = f
			}
		}
		if np == 0 {
			// nothing parked: the run is waiting on a (virtual) timer or for a barrier.
			// Block until a callback parks or the run finishes; the bubble's clock advances
			// when every goroutine, including this one, is durably blocked. A genuine
			// deadlock inside flyt surfaces as the bubble's deadlock panic.
			select {
			case <-x.wake:
			case <-done:
			}
			continue
		}
		choice := 0
		if step < len(x.sc.Sched) {
			choice = x.sc.Sched[step] % np
			if choice < 0 {
				choice = -choice
			}
		}
		x.mu.Lock()
		preferred := false
		for _, want := range x.sc.Prefer {
			for pi, pp := range x.parked {
				if pp.item == want {
					choice, preferred = pi, true
					break
				}
			}
			if preferred {
				break
			}
		}
		if preferred {
			step-- // a preferred release does not consume a schedule entry
		} else {
			x.optCounts = append(x.optCounts, np)
		}
		p := x.parked[choice]
		x.parked = append(x.parked[:choice], x.parked[choice+1:]...)
		x.releases = append(x.releases, fmt.Sprintf("i%d.a%d", p.item, p.attempt))
		x.mu.Unlock()
		step++
		qpRetried = 0
		close(p.gate)
	}
}

func (x *batchExec) rejected(br batchRun) bool {
	if x.cnMissing {
		return true
	}
	if x.unattributedExec > 0 && x.sc.PrepForm != PFResults {
		return true
	}
	if x.swapped && br.Panic == "" && br.CtxErr == nil && x.sc.n() > 0 && x.sc.PrepErr == 0 {
		// After the swap the builder's exec function must still be the one that runs. If prep
		// produced items and not a single exec callback was seen, the builder configures another
		// CustomNode than the one the run uses: the scenario could not be set up.
		sawPrep, sawExec := false, false
		for _, e := range br.Events {
			switch e.Kind {
			case "prep":
				sawPrep = sawPrep || e.RetErr == nil
			case "exec", "fb":
				sawExec = true
			}
		}
		if sawPrep && !sawExec {
			return true
		}
	}
	return prepFormRejected(x.sc, br.Events, br.Err, br.Panic, br.CtxErr)
}

// prepFormRejected: see batchRun.Rejected. Only the builder's own WithPrepFunc form ([]Result)
// is documented; every other form is installed by replacing the node's embedded CustomNode.
func prepFormRejected(sc *BatchSc, evs []BEv, err error, panicMsg string, ctxErr error) bool {
	if panicMsg != "" || sc.PrepForm == PFResults {
		return false
	}
	if ctxErr != nil && err != nil && errors.Is(err, ctxErr) {
		return false // the run reports the cancellation
	}
	sawPrep := false
	for _, e := range evs {
		if e.Kind == "prep" {
			sawPrep = true
		}
	}
	if !sawPrep {
		// the implementation never consulted the prep installed through the embedded CustomNode
		return true
	}
	if err == nil || sc.PrepErr != 0 {
		return false
	}
	for _, e := range evs {
		if e.Kind != "prep" || e.RetErr != nil {
			return false
		}
	}
	return true
}

// drain: the run has returned. Callbacks that are still parked on the harness's own gates
// (an implementation may return without joining in-flight executions) are released so that
// only goroutines flyt itself keeps blocked can outlive the case.
func (x *batchExec) drain() {
	for i := 0; i < 1000; i++ {
		synctest.Wait()
		x.mu.Lock()
		ps := x.parked
		x.parked = nil
		x.mu.Unlock()
		if len(ps) == 0 {
			return
		}
		for _, p := range ps {
			close(p.gate)
		}
	}
}

func (x *batchExec) snapshot() []BEv {
	x.mu.Lock()
	defer x.mu.Unlock()
	return append([]BEv(nil), x.events...)
}

func bevStrings(evs []BEv) []string {
	out := make([]string, len(evs))
	for i, e := range evs {
		out[i] = e.String()
	}
	return out
}

// ---------------------------------------------------------------------------------
// per-item reference model (the C02 model applied to one item's script)

type itemModel struct {
	// Unconstrained: within its budget the item's script returns an error Result together with
	// a nil error. Whether that counts as a failed attempt (retry, fallback) or as a final
	// outcome is left open by every property, so attempt and fallback counts are not asserted.
	Unconstrained bool
	Attempts int
	FbRuns   bool
	OK       bool  // item ends with a value
	ResErr   bool  // item ends with an error Result returned by exec (nil Go error)
}

func (b *BatchSc) modelItem(i int) itemModel {
	it := b.item(i)
	n := b.budget()
	var m itemModel
	for a := 0; a < n; a++ {
		if it.outcome(a).Err == 6 && !b.ExecAny {
			m.Unconstrained = true
		}
	}
	for a := 0; a < n; a++ {
		m.Attempts = a + 1
		o := it.outcome(a)
		if o.Err == 6 && !b.ExecAny {
			m.ResErr = true
			return m
		}
		if o.Err == 0 || o.Err == 6 {
			m.OK = true
			return m
		}
	}
	if b.HasFb {
		m.FbRuns = true
		m.OK = it.Fb.Err == 0
	}
	return m
}

// slotMatches checks that result slot i is exactly the outcome of the callbacks that ran for item i.
// evs are the events of item i (exec attempts and fallback) in order.
func slotMatches(slot flyt.Result, evs []BEv) string {
	if len(evs) == 0 {
		return "no callback ran for this item"
	}
	last := evs[len(evs)-1]
	switch {
	case last.RetResErr != nil:
		if !slot.IsError() || !chainHas(slot.Error(), last.RetResErr) {
			return fmt.Sprintf("slot is %s, exec returned an error Result carrying %q", describeResult(slot), last.RetResErr)
		}
	case last.RetErr != nil:
		if !slot.IsError() {
			return fmt.Sprintf("slot is a success (%s) but the item's last callback failed with %q", describeResult(slot), last.RetErr)
		}
		if m := errMatches(slot.Error(), last.RetErr); m != "" {
			return fmt.Sprintf("slot error %q is not the item's own last error %q (%s)", slot.Error(), last.RetErr, m)
		}
	default:
		if slot.IsError() {
			return fmt.Sprintf("slot is error %q but the item's last callback succeeded", slot.Error())
		}
		if !samePayload(slot.Value(), last.Ret) {
			return fmt.Sprintf("slot value %#v is not what the item's last callback returned (%#v)", slot.Value(), last.Ret)
		}
	}
	return ""
}

func describeResult(r flyt.Result) string {
	if r.IsError() {
		return fmt.Sprintf("error(%v)", r.Error())
	}
	return fmt.Sprintf("value(%#v)", r.Value())
}

// itemEvents groups exec/fb events per item index.
func itemEvents(evs []BEv, n int) [][]BEv {
	out := make([][]BEv, n)
	for _, e := range evs {
		if (e.Kind == "exec" || e.Kind == "fb") && e.Item >= 0 && e.Item < n {
			out[e.Item] = append(out[e.Item], e)
		}
	}
	return out
}
