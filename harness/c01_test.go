package harness

import (
	"context"
	"fmt"
	"testing"

	"github.com/mark3labs/flyt"
)

// C01 — node lifecycle: prep once, exec attempts, post at most once, data threaded.

// segments splits a trace into maximal runs of events of one (leaf, visit).
func segments(tr []Ev) [][]Ev {
	var out [][]Ev
	for i := 0; i < len(tr); {
		j := i + 1
		for j < len(tr) && tr[j].Leaf == tr[i].Leaf && tr[j].Visit == tr[i].Visit && tr[j].Phase != "prep" {
			j++
		}
		out = append(out, tr[i:j])
		i = j
	}
	return out
}

// c01Segment checks the lifecycle shape and data threading of one node run.
// It returns (violation, succeeded, post action).
func c01Segment(seg []Ev, store *flyt.SharedStore, l *LeafSpec) (string, bool, string) {
	name := fmt.Sprintf("L%d.v%d", seg[0].Leaf, seg[0].Visit)
	if seg[0].Phase != "prep" {
		return fmt.Sprintf("%s: first callback is %s, not prep (trace %v)", name, seg[0].Phase, traceStrings(seg)), false, ""
	}
	prep := seg[0]
	if store == nil {
		// node of a nested flow: which store an inner flow hands to its nodes is C10's clause;
		// here only "post receives the same store as prep"
		store = prep.Store
	}
	if prep.Store != store {
		return fmt.Sprintf("%s: prep received store %p, run was given %p", name, prep.Store, store), false, ""
	}
	if prep.RetErr != nil {
		if len(seg) != 1 {
			return fmt.Sprintf("%s: callbacks after a failed prep: %v", name, traceStrings(seg)), false, ""
		}
		return "", false, ""
	}
	// phase order: exec* fb? post?
	stage := 0 // 0 exec, 1 fb seen, 2 post seen
	var lastExec, fb, post *Ev
	for i := 1; i < len(seg); i++ {
		e := &seg[i]
		switch e.Phase {
		case "exec":
			if stage != 0 {
				return fmt.Sprintf("%s: exec attempt after %s: %v", name, seg[i-1].Phase, traceStrings(seg)), false, ""
			}
			if lastExec != nil && lastExec.RetErr == nil {
				return fmt.Sprintf("%s: exec attempted again after a successful attempt: %v", name, traceStrings(seg)), false, ""
			}
			if !samePayload(e.In, prep.Ret) {
				return fmt.Sprintf("%s: exec[%d] received %#v, prep returned %#v", name, e.Attempt, e.In, prep.Ret), false, ""
			}
			if e.InIsErr {
				return fmt.Sprintf("%s: exec[%d] received an error Result for a successful prep", name, e.Attempt), false, ""
			}
			lastExec = e
		case "fb":
			if stage != 0 || lastExec == nil {
				return fmt.Sprintf("%s: fallback out of order: %v", name, traceStrings(seg)), false, ""
			}
			if lastExec.RetErr == nil {
				return fmt.Sprintf("%s: fallback invoked after a successful attempt: %v", name, traceStrings(seg)), false, ""
			}
			// (what the fallback receives is C02's clause, not C01's)
			stage, fb = 1, e
		case "post":
			if stage == 2 {
				return fmt.Sprintf("%s: post called twice: %v", name, traceStrings(seg)), false, ""
			}
			stage, post = 2, e
		default:
			return fmt.Sprintf("%s: second prep in one run: %v", name, traceStrings(seg)), false, ""
		}
	}
	if lastExec == nil {
		return fmt.Sprintf("%s: prep succeeded but no exec attempt followed: %v", name, traceStrings(seg)), false, ""
	}
	// did the exec phase produce a result without error?
	var res any
	produced := false
	if fb != nil {
		if fb.RetErr == nil {
			produced, res = true, fb.Ret
		}
	} else if lastExec.RetErr == nil {
		produced, res = true, lastExec.Ret
	}
	if produced != (post != nil) {
		return fmt.Sprintf("%s: exec phase produced a result=%v but post called=%v: %v", name, produced, post != nil, traceStrings(seg)), false, ""
	}
	if post == nil {
		return "", false, ""
	}
	if post.Store != store {
		return fmt.Sprintf("%s: post received store %p, run was given %p", name, post.Store, store), false, ""
	}
	if !samePayload(post.In, prep.Ret) {
		return fmt.Sprintf("%s: post received prep value %#v, prep returned %#v", name, post.In, prep.Ret), false, ""
	}
	if !samePayload(post.In2, res) {
		return fmt.Sprintf("%s: post received exec result %#v, exec phase produced %#v", name, post.In2, res), false, ""
	}
	if post.InIsErr {
		return fmt.Sprintf("%s: post received an error Result for a successful exec phase", name), false, ""
	}
	if post.RetErr != nil {
		return "", false, ""
	}
	return "", true, post.RetAct
}

func c01Body(sc *WF) Verdict {
	x := newWfExec(sc)
	anyFail, multiN, emptyAct := false, false, false
	classes := map[string]bool{}
	for r := 0; r < sc.runs(); r++ {
		rr := x.run(context.Background())
		if runaway(rr.Panic) {
			return ok(false, "scenario-did-not-terminate") // C03/C10 territory, see runaway()
		}
		if rr.Panic != "" {
			return bad("C01:panic", "run panicked: %s", rr.Panic)
		}
		tr := x.snapshot()[rr.Lo:rr.Hi]
		segs := segments(tr)
		if len(segs) == 0 {
			return bad("C01:no-callbacks", "run invoked no callback at all (action=%q err=%v)", rr.Action, rr.Err)
		}
		rootIsLeaf := sc.Nodes[sc.Root].Leaf != nil
		if rr.Err == nil && sc.depth(sc.Root) <= 1 {
			// (flat flows only: which store a NESTED flow hands to its nodes is C10's clause)
			// Behavioural form of "the very store given to the run" for nodes inside flows: every post
			// of this run appended its leaf to the "path" key of the store it was handed; after a
			// successful run the caller's store must hold exactly this run's path (a working copy
			// published back is fine, a store remembered from an earlier run is not).
			var want []int
			for _, e := range tr {
				if e.Phase == "post" {
					want = append(want, e.Leaf)
				}
			}
			if got := storePath(rr.Store); !intsEq(got, want) {
				return bad("C01:store-of-this-run", "run %d: the posts of this run recorded %v in the store they were handed, the store given to the run holds %v", r, want, got)
			}
		}
		if rootIsLeaf && len(segs) != 1 {
			return bad("C01:prep-count", "single node run shows %d prep calls: %v", len(segs), traceStrings(tr))
		}
		for i, seg := range segs {
			l := sc.Nodes[seg[0].Leaf].Leaf
			runStore := rr.Store
			if !rootIsLeaf {
				// a node inside a flow: "the run" hands it the store the flow works on - which store
				// that is (the caller's, a working copy published back, ...) is C10's clause
				runStore = nil
			}
			msg, succeeded, act := c01Segment(seg, runStore, l)
			if msg != "" {
				return bad("C01:lifecycle", "%s", msg)
			}
			classes[fmt.Sprintf("kind%d", l.Kind)] = true
			if l.effN() > 1 {
				multiN = true
			}
			for _, e := range seg {
				if e.RetErr != nil {
					anyFail = true
				}
			}
			if succeeded && act == "" {
				emptyAct = true
			}
			last := i == len(segs)-1
			if !succeeded && !last {
				return bad("C01:continues-after-failure", "node run %s failed but the flow went on: %v", traceStrings(seg), traceStrings(tr))
			}
			if last {
				if succeeded {
					if rr.Err != nil {
						return bad("C01:error-on-success", "all phases succeeded but run returned error %v (trace %v)", rr.Err, traceStrings(tr))
					}
					if rootIsLeaf {
						want := act
						if want == "" {
							want = string(flyt.DefaultAction)
						}
						if string(rr.Action) != want {
							return bad("C01:action", "post returned %q, run returned action %q (want %q)", act, rr.Action, want)
						}
					}
				} else {
					if rr.Err == nil {
						return bad("C01:nil-error-on-failure", "a phase failed but run returned nil error, action %q (trace %v)", rr.Action, traceStrings(tr))
					}
					if rootIsLeaf && rr.Action != "" {
						return bad("C01:action-with-error", "run returned both action %q and error %v", rr.Action, rr.Err)
					}
				}
			}
		}
	}
	var cl []string
	for c := range classes {
		cl = append(cl, c)
	}
	sortStrings(cl)
	if sc.Nodes[sc.Root].Flow != nil {
		cl = append(cl, "in-flow")
	} else {
		cl = append(cl, "direct")
	}
	return ok(anyFail || multiN || emptyAct, cl...)
}

func checkC01(t *testing.T, sc WF) Verdict {
	var v Verdict
	if f := Bubble(t, func() { v = c01Body(&sc) }); f != "" && !goroutinesRemain(f) {
		return bad("C01:bubble", "%s", f)
	}
	return v
}

// enumC01 enumerates single-leaf scenarios exhaustively:
// kinds x styles x N<=maxN x exec sequences of length <= N+1 x fb{ok,err,pass} x prep{ok,err} x post{action,"",err}.
func enumC01(maxN int, visit func(WF)) int {
	count := 0
	type ks struct{ kind, style int }
	var kinds []ks
	for k := 0; k < numKinds; k++ {
		if k == KFunc {
			for s := 0; s < numStyles; s++ {
				kinds = append(kinds, ks{k, s})
			}
		} else {
			kinds = append(kinds, ks{k, 0})
		}
	}
	posts := []VisitScript{{Action: "go"}, {Action: ""}, {Post: Outcome{Err: 1}}, {Action: "go", Post: Outcome{Err: 3, Pay: 1}}}
	fbs := []Outcome{{Pay: 0}, {Err: 3}, {Err: 5}}
	for _, k := range kinds {
		for n := 1; n <= maxN; n++ {
			for ln := 1; ln <= n+1; ln++ {
				for mask := 0; mask < 1<<ln; mask++ {
					for fi, fb := range fbs {
						for pi, ps := range posts {
							for prepErr := 0; prepErr < 2; prepErr++ {
								if prepErr == 1 && (mask != 0 || fi != 0 || pi != 0 || ln != 1) {
									continue // prep failure makes the rest irrelevant: one representative
								}
								s := VisitScript{Action: ps.Action, Post: ps.Post, Fb: fb}
								s.Prep = Outcome{Err: prepErr * 2, Pay: (n + ln + mask) % numPayKinds}
								for a := 0; a < ln; a++ {
									o := Outcome{Pay: (a + mask + pi) % numPayKinds}
									if mask&(1<<a) != 0 {
										o.Err = errFlavors[(a+mask)%len(errFlavors)]
									}
									s.Exec = append(s.Exec, o)
								}
								w := WF{Nodes: []NodeSpec{{Leaf: &LeafSpec{Kind: k.kind, Style: k.style, N: n, ErrRes: (mask+ln)%2 == 1, Visits: []VisitScript{s}}}}, Fuel: 5}
								visit(w)
								count++
							}
						}
					}
				}
			}
		}
	}
	return count
}

func TestC01(t *testing.T) {
	r := newRun(t, "C01")
	defer r.finish()
	maxN := r.pick(3, 6)
	i := 0
	n := enumC01(maxN, func(w WF) {
		if r.mine(i) {
			evalCase(r, "enum-single", w, checkC01)
		}
		i++
	})
	r.exhaustive(fmt.Sprintf("single node: all kinds/styles x N<=%d x every exec outcome sequence of length<=N+1 x fallback{ok,err,passthrough} x prep{ok,err} x post{action,empty,err}: %d cases", maxN, n))
	g := wfGen{MaxLeaves: 1, Actions: prefixActions, PErr: 120, PExecErr: 450, MaxN: 8, Waits: true, MaxVisits: 1, FuelMax: 4}
	rapidPart(r, "rand-single", r.pick(2500, 120000), g.gen, checkC01)
	g2 := wfGen{MaxLeaves: 5, MaxFlows: 3, Actions: prefixActions, PErr: 40, PExecErr: 300, MaxN: 4, Waits: true, MaxVisits: 3, FuelMax: 12, MaxRuns: 2}
	rapidPart(r, "rand-flow", r.pick(2500, 120000), g2.gen, checkC01)
}

func init() { registerReplay("C01", checkC01) }
