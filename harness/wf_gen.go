package harness

import (
	"pgregory.net/rapid"
)

// wfGen parametrises the workflow-scenario generator shared by C01–C05, C10, C18.
type wfGen struct {
	MaxLeaves int
	MaxFlows  int      // 0 = single leaf as root
	Actions   []string // alphabet for post actions / connections
	PErr      int      // per-mille probability that a phase outcome is an error
	PExecErr  int      // per-mille probability that an exec attempt fails
	MaxN      int
	Waits     bool
	MaxVisits int
	MaxRuns   int
	Kinds     []int // nil = all
	FuelMax   int
	// FlowRetry: flows get a retry budget of 1..3 (see FlowSpec.N).
	FlowRetry bool
	// Recursion: connection targets may be any node - the flow itself or a later flow -
	// (start nodes and sources always have a smaller index, so every activation of a flow runs
	// at least one leaf and the fuel bounds the nesting depth).
	Recursion bool
	// Twins: sometimes make two plain leaves share an address (LeafSpec.TwinOf).
	Twins bool
	// PreferFlows biases start nodes and connection sources towards flows used as members.
	PreferFlows bool
	// PBatch: per-mille probability that a leaf is a batch node (KBatch) with 0..3 items.
	PBatch int
}

// error flavours a scripted callback can fail with (see mkErr)
var errFlavors = []int{1, 2, 3, 4, 7, 8, 9, 10, 11, 14, 15}

// (prefixes of each other, a case variant, the empty and the default action)
var prefixActions = []string{"a", "ab", "abc", "Ab", "", "default"}

func draw[T any](rt *rapid.T, g *rapid.Generator[T], label string) T { return g.Draw(rt, label) }

// rapid's integer generators are deliberately biased towards small values and range
// boundaries, which would distort probabilities. mix() turns a drawn uint64 into a
// (practically) uniform one; the raw value 0 - rapid's shrink target - always maps to
// "no" / the first choice so that shrinking still simplifies.
func mix(v uint64) uint64 {
	v += 0x9e3779b97f4a7c15
	v = (v ^ (v >> 30)) * 0xbf58476d1ce4e5b9
	v = (v ^ (v >> 27)) * 0x94d049bb133111eb
	return v ^ (v >> 31)
}

func perMille(rt *rapid.T, p int, label string) bool {
	if p <= 0 {
		return false
	}
	v := rapid.Uint64().Draw(rt, label)
	if v == 0 {
		return false
	}
	return mix(v)%1000 < uint64(p)
}

// uniform draws an (almost exactly) uniform int in [0,n).
func uniform(rt *rapid.T, n int, label string) int {
	if n <= 1 {
		return 0
	}
	v := rapid.Uint64().Draw(rt, label)
	if v == 0 {
		return 0
	}
	return int(mix(v) % uint64(n))
}

func (g wfGen) outcome(rt *rapid.T, p int, label string) Outcome {
	o := Outcome{Pay: rapid.IntRange(0, numPayKinds-1).Draw(rt, label+".pay")}
	if perMille(rt, p, label+".fail") {
		o.Err = errFlavors[uniform(rt, len(errFlavors), label+".flavor")]
	}
	return o
}

func (g wfGen) leaf(rt *rapid.T) *LeafSpec {
	l := &LeafSpec{}
	if g.PBatch > 0 && perMille(rt, g.PBatch, "batchleaf") {
		l.Kind, l.N = KBatch, 1
		nv := rapid.IntRange(1, max(1, g.MaxVisits)).Draw(rt, "nvisits")
		for v := 0; v < nv; v++ {
			var s VisitScript
			s.Prep = g.outcome(rt, g.PErr, "prep")
			ni := uniform(rt, 4, "nitems")
			for a := 0; a < ni; a++ {
				s.Exec = append(s.Exec, Outcome{Pay: a}) // items never fail in generated scenarios
			}
			s.Post = g.outcome(rt, g.PErr, "post")
			s.Post.Pay %= 2
			s.Action = rapid.SampledFrom(g.Actions).Draw(rt, "action")
			l.Visits = append(l.Visits, s)
		}
		return l
	}
	if len(g.Kinds) > 0 {
		l.Kind = rapid.SampledFrom(g.Kinds).Draw(rt, "kind")
	} else {
		l.Kind = rapid.IntRange(0, numKinds-1).Draw(rt, "kind")
	}
	if l.Kind == KFunc {
		l.Style = rapid.IntRange(0, numStyles-1).Draw(rt, "style")
		l.ErrRes = rapid.Bool().Draw(rt, "errres")
	}
	maxN := g.MaxN
	if maxN < 1 {
		maxN = 1
	}
	l.N = rapid.IntRange(1, maxN).Draw(rt, "n")
	if g.Waits && rapid.Bool().Draw(rt, "haswait") {
		l.WaitMs = rapid.SampledFrom([]int{1, 50, 3600000}).Draw(rt, "wait")
	}
	nv := rapid.IntRange(1, max(1, g.MaxVisits)).Draw(rt, "nvisits")
	for v := 0; v < nv; v++ {
		var s VisitScript
		s.Prep = g.outcome(rt, g.PErr, "prep")
		ne := rapid.IntRange(1, l.N+1).Draw(rt, "nexec")
		for a := 0; a < ne; a++ {
			s.Exec = append(s.Exec, g.outcome(rt, g.PExecErr, "exec"))
		}
		s.Fb = g.outcome(rt, 400, "fb")
		if s.Fb.Err != 0 && rapid.Bool().Draw(rt, "fbpass") {
			s.Fb.Err = 5
		}
		s.Post = g.outcome(rt, g.PErr, "post")
		s.Post.Pay %= 2
		s.Action = rapid.SampledFrom(g.Actions).Draw(rt, "action")
		l.Visits = append(l.Visits, s)
	}
	return l
}

// connActions: the actions connections are made on. The empty action is never connected:
// no node can report it (C18), and what Connect(n, "", x) should mean is left open by every
// property (an implementation may normalise it to the default action or reject it).
func (g wfGen) connActions() []string {
	var out []string
	for _, a := range g.Actions {
		if a != "" {
			out = append(out, a)
		}
	}
	if len(out) == 0 {
		out = []string{"default"}
	}
	return out
}

func (g wfGen) gen(rt *rapid.T) WF {
	var w WF
	nl := rapid.IntRange(1, max(1, g.MaxLeaves)).Draw(rt, "nleaves")
	for i := 0; i < nl; i++ {
		w.Nodes = append(w.Nodes, NodeSpec{Leaf: g.leaf(rt)})
	}
	if g.Twins {
		for i := 1; i < nl; i++ {
			if w.Nodes[i].Leaf.Kind == KPlain && w.Nodes[i-1].Leaf.Kind == KPlain && w.Nodes[i-1].Leaf.TwinOf == nil && rapid.Bool().Draw(rt, "twin") {
				j := i - 1
				w.Nodes[i].Leaf.TwinOf = &j
			}
		}
	}
	nf := 0
	if g.MaxFlows > 0 {
		nf = rapid.IntRange(1, g.MaxFlows).Draw(rt, "nflows")
	}
	for f := 0; f < nf; f++ {
		avail := len(w.Nodes)
		fs := &FlowSpec{Start: rapid.IntRange(0, avail-1).Draw(rt, "start")}
		if g.PreferFlows && avail > nl && rapid.Bool().Draw(rt, "startflow") {
			fs.Start = rapid.IntRange(nl, avail-1).Draw(rt, "startf")
		}
		nc := rapid.IntRange(0, 3*avail).Draw(rt, "nconns")
		for c := 0; c < nc; c++ {
			from := rapid.IntRange(0, avail-1).Draw(rt, "from")
			if g.PreferFlows && avail > nl && rapid.Bool().Draw(rt, "fromflow") {
				from = rapid.IntRange(nl, avail-1).Draw(rt, "fromf")
			}
			fs.Conns = append(fs.Conns, Conn{
				From:   from,
				Action: rapid.SampledFrom(g.connActions()).Draw(rt, "caction"),
				To:     rapid.IntRange(-1, avail-1).Draw(rt, "to"),
			})
		}
		if g.Recursion {
			nr := rapid.IntRange(0, 3).Draw(rt, "nrec")
			for c := 0; c < nr; c++ {
				fs.Conns = append(fs.Conns, Conn{
					From:   rapid.IntRange(0, avail-1).Draw(rt, "rfrom"),
					Action: rapid.SampledFrom(g.connActions()).Draw(rt, "raction"),
					To:     rapid.IntRange(avail, nl+nf-1).Draw(rt, "rto"), // this flow or a later one
				})
			}
		}
		if g.FlowRetry {
			fs.N = rapid.IntRange(1, 3).Draw(rt, "flown")
			if g.Waits && rapid.Bool().Draw(rt, "flowwait") {
				fs.WaitMs = 1000
			}
		}
		w.Nodes = append(w.Nodes, NodeSpec{Flow: fs})
	}
	if nf > 0 {
		w.Root = len(w.Nodes) - 1
	} else {
		w.Root = rapid.IntRange(0, nl-1).Draw(rt, "root")
	}
	w.Fuel = rapid.IntRange(1, max(1, g.FuelMax)).Draw(rt, "fuel")
	if g.MaxRuns > 1 {
		w.Runs = rapid.IntRange(1, g.MaxRuns).Draw(rt, "runs")
	}
	return w
}

// depth of node i (leaf = 0).
func (w *WF) depth(i int) int { return w.depthGuard(i, map[int]bool{}) }

func (w *WF) depthGuard(i int, onPath map[int]bool) int {
	ns := w.Nodes[i]
	if ns.Leaf != nil || onPath[i] {
		return 0
	}
	onPath[i] = true
	defer delete(onPath, i)
	d := w.depthGuard(ns.Flow.Start, onPath)
	for _, c := range ns.Flow.Conns {
		if x := w.depthGuard(c.From, onPath); x > d {
			d = x
		}
		if c.To >= 0 {
			if x := w.depthGuard(c.To, onPath); x > d {
				d = x
			}
		}
	}
	return d + 1
}

// recursive reports whether some flow can (transitively) contain itself.
func (w *WF) recursive() bool {
	for i, ns := range w.Nodes {
		if ns.Flow == nil {
			continue
		}
		for _, c := range ns.Flow.Conns {
			if c.To >= i || c.From >= i {
				return true
			}
		}
	}
	return false
}

// batchClass: class label for scenarios in which a batch node is a member of a flow.
func (w *WF) batchClass() []string {
	for _, n := range w.Nodes {
		if n.Leaf != nil && n.Leaf.Kind == KBatch {
			return []string{"batch-node-in-flow"}
		}
	}
	return nil
}

func (w *WF) runs() int {
	if w.Runs < 1 {
		return 1
	}
	return w.Runs
}
