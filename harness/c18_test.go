package harness

import (
	"context"
	"fmt"
	"testing"

	"github.com/mark3labs/flyt"
	"pgregory.net/rapid"
)

// C18 — a successful run never yields the empty action, for any node kind.

type C18Case struct {
	Node     string `json:"node"` // leaf | flow | batch
	LeafKind int    `json:"leaf_kind,omitempty"`
	Style    int    `json:"style,omitempty"`
	PostAct  string `json:"post_act"`
	BatchN   int    `json:"batch_n,omitempty"`
	BatchC   int    `json:"batch_c,omitempty"`
	Form     int    `json:"form,omitempty"`
	NoPost   bool   `json:"no_post,omitempty"`
	BatchPtr bool   `json:"batch_ptr,omitempty"` // pass *BatchNode instead of the builder
	InFlow   bool   `json:"in_flow"`
	// ExecPath (leaf/flow nodes): 0 exec succeeds at once; 1 first attempt fails, retry succeeds
	// (N=2); 2 every attempt fails and the fallback recovers.
	ExecPath int `json:"exec_path,omitempty"`
	// PreCancelled (batch nodes): the context is already done when the batch is run; a batch
	// still calls post then, and when that run reports success the action must be non-empty.
	PreCancelled bool `json:"pre_cancelled,omitempty"`
}

type markNode struct {
	ran int
}

func (m *markNode) Prep(ctx context.Context, s *flyt.SharedStore) (any, error) { return nil, nil }
func (m *markNode) Exec(ctx context.Context, p any) (any, error)                { m.ran++; return nil, nil }
func (m *markNode) Post(ctx context.Context, s *flyt.SharedStore, p, e any) (flyt.Action, error) {
	return "end", nil
}

func (c *C18Case) build() flyt.Node {
	switch c.Node {
	case "leaf", "flow":
		vs := VisitScript{Action: c.PostAct, Exec: []Outcome{{Pay: 2}}, Fb: Outcome{Pay: 3}}
		switch c.ExecPath {
		case 1:
			vs.Exec = []Outcome{{Err: 2}, {Pay: 2}}
		case 2:
			vs.Exec = []Outcome{{Err: 1}}
		}
		w := &WF{Nodes: []NodeSpec{{Leaf: &LeafSpec{Kind: c.LeafKind, Style: c.Style, N: 2, Visits: []VisitScript{vs}}}}, Fuel: 100}
		x := newWfExec(w)
		if c.Node == "leaf" {
			return x.nodes[0]
		}
		first := &markNode{}
		inner := flyt.NewFlow(first)
		inner.Connect(first, "end", x.nodes[0])
		return inner
	default:
		b := &BatchSc{PrepForm: c.Form, N: c.BatchN, C: c.BatchC, Budget: 1, PostAct: c.PostAct, NoPost: c.NoPost, CfgBits: c.BatchN + 4*c.BatchC}
		if c.BatchPtr {
			b.CfgBits |= 16
		} else {
			b.CfgBits &^= 16
		}
		for i := 0; i < b.n(); i++ {
			b.Items = append(b.Items, ItemScript{Exec: []Outcome{{Pay: i}}})
		}
		return newBatchExec(b).node
	}
}

func checkC18(t *testing.T, c C18Case) Verdict {
	node := c.build()
	ctx := context.Background()
	if c.PreCancelled {
		cctx, cancel := context.WithCancel(ctx)
		cancel()
		ctx = cctx
	}
	wantDefault := c.PostAct == "" || c.PostAct == "default" || (c.Node == "batch" && c.NoPost)
	cls := []string{c.Node, "post=" + c.PostAct, fmt.Sprintf("exec-path-%d", c.ExecPath)}
	if c.Node == "batch" {
		cls = append(cls, fmt.Sprintf("n=%d", c.BatchN))
	}
	if !c.InFlow {
		act, err := flyt.Run(ctx, node, flyt.NewSharedStore())
		if err != nil {
			// not a successful run: C18 has nothing to assert about it
			return ok(false, append(cls, "run-fails")...)
		}
		if act == "" {
			return bad(fmt.Sprintf("C18:empty-action:%s,n=%d", c.Node, c.BatchN), "successful run of a %s node (post returned %q, batch n=%d c=%d form=%d) reported the empty action", c.Node, c.PostAct, c.BatchN, c.BatchC, c.Form)
		}
		if wantDefault && act != flyt.DefaultAction {
			return bad("C18:not-default", "post returned %q but run reported %q, want %q", c.PostAct, act, flyt.DefaultAction)
		}
		// (that a custom action is reported unchanged is C01's / C10's clause)
		return ok(true, append(cls, "direct")...)
	}
	sentinel, other := &markNode{}, &markNode{}
	flow := flyt.NewFlow(node)
	flow.Connect(node, flyt.DefaultAction, sentinel)
	flow.Connect(node, "custom", other)
	if err := flow.Run(ctx, flyt.NewSharedStore()); err != nil {
		return ok(false, append(cls, "run-fails")...)
	}
	if !wantDefault {
		// a custom action: which edge it selects is C01's / C03's / C10's business
		return ok(false, append(cls, "in-flow", "custom-action")...)
	}
	if wantDefault != (sentinel.ran == 1) {
		return bad(fmt.Sprintf("C18:default-edge:%s,n=%d", c.Node, c.BatchN), "%s node whose post returned %q inside a flow: default-connected successor ran %d times (want %v); other successor ran %d times", c.Node, c.PostAct, sentinel.ran, wantDefault, other.ran)
	}
	if !wantDefault && other.ran != 1 {
		return bad("C18:custom-edge", "custom-connected successor ran %d times", other.ran)
	}
	if wantDefault && other.ran != 0 {
		return bad("C18:custom-edge-followed", "the successor connected on the custom action ran although post returned %q", c.PostAct)
	}
	return ok(true, append(cls, "in-flow")...)
}

func TestC18(t *testing.T) {
	r := newRun(t, "C18")
	defer r.finish()
	k := 0
	run := func(c C18Case) {
		if r.mine(k) {
			evalCase(r, "enum", c, checkC18)
		}
		k++
	}
	for _, inFlow := range []bool{false, true} {
		for _, act := range []string{"", "default", "custom", " ", "\n"} {
			for kind := 0; kind < numKinds; kind++ {
				styles := 1
				if kind == KFunc {
					styles = numStyles
				}
				for st := 0; st < styles; st++ {
					for path := 0; path < 3; path++ {
						l := LeafSpec{Kind: kind, Style: st, N: 2}
						if (path == 1 && l.effN() < 2) || (path == 2 && !l.hasFb()) {
							continue // this kind cannot take that path to a successful run
						}
						run(C18Case{Node: "leaf", LeafKind: kind, Style: st, PostAct: act, InFlow: inFlow, ExecPath: path})
						run(C18Case{Node: "flow", LeafKind: kind, Style: st, PostAct: act, InFlow: inFlow, ExecPath: path})
					}
				}
			}
			for n := 0; n <= 3; n++ {
				for c := 0; c <= 2; c++ {
					for form := 0; form < numPrepForms; form++ {
						for _, noPost := range []bool{false, true} {
							for _, ptr := range []bool{false, true} {
								run(C18Case{Node: "batch", PostAct: act, BatchN: n, BatchC: c, Form: form, NoPost: noPost, BatchPtr: ptr, InFlow: inFlow})
								if !inFlow {
									run(C18Case{Node: "batch", PostAct: act, BatchN: n, BatchC: c, Form: form, NoPost: noPost, BatchPtr: ptr, PreCancelled: true})
								}
							}
						}
					}
				}
			}
		}
	}
	g := wfGen{MaxLeaves: 4, MaxFlows: 4, Actions: []string{"", "", "default", "a", "b"}, PErr: 15, PExecErr: 120, MaxN: 2, MaxVisits: 3, FuelMax: 14, MaxRuns: 2, PreferFlows: true, PBatch: 200}
	rapidPart(r, "twin-structured", r.pick(2500, 60000), genC18Twin, checkC18Twin)
	rapidPart(r, "twin-random", r.pick(2500, 60000), g.gen, checkC18Twin)
	r.exhaustive(fmt.Sprintf("all node kinds/styles x exec path {succeeds, succeeds on retry, fallback recovers} (plain, base, function-style, flow-as-node, batch with 9 prep forms x n in 0..3 x c in 0..2 x with/without post x builder/*BatchNode) x post in {\"\", default, custom} x {run directly, routed step of a flow}: %d configurations", k))
}

// ---------------------------------------------------------------------------------
// "" == default at every depth (metamorphic twin): a generated arrangement of leaves of every
// kind, batch members and flows nested up to depth 4, run AS A NODE through flyt.Run, and its
// twin in which every post that answered "" answers "default" instead. C18 says the empty
// action is reported as the default action by every kind of node, flows used as nodes included;
// so whenever one of the two runs succeeds the other must succeed too, with the same callbacks
// in the same order and the same (non-empty) final action. Runs in which both fail are not
// compared (C18 speaks about successful runs only).

func emptyToDefault(w *WF) WF {
	t := *w
	t.Nodes = make([]NodeSpec, len(w.Nodes))
	for i, ns := range w.Nodes {
		t.Nodes[i] = ns
		if ns.Leaf != nil {
			l := *ns.Leaf
			l.Visits = append([]VisitScript(nil), ns.Leaf.Visits...)
			for j := range l.Visits {
				if l.Visits[j].Action == "" {
					l.Visits[j].Action = string(flyt.DefaultAction)
				}
			}
			t.Nodes[i].Leaf = &l
		}
	}
	return t
}

func shapeStrings(tr []Ev) []string {
	out := make([]string, len(tr))
	for i, e := range tr {
		out[i] = MEv{Leaf: e.Leaf, Visit: e.Visit, Phase: e.Phase, Attempt: e.Attempt}.String()
		if e.RetErr != nil {
			out[i] += "!"
		}
	}
	return out
}

func checkC18Twin(t *testing.T, sc WF) Verdict {
	if sc.recursive() {
		return ok(false, "recursive-skipped")
	}
	tw := emptyToDefault(&sc)
	xa, xb := newWfExec(&sc), newWfExec(&tw)
	nontrivial := false
	classes := map[string]bool{fmt.Sprintf("depth%d", sc.depth(sc.Root)): true}
	for r := 0; r < sc.runs(); r++ {
		ra := xa.runAsNode(context.Background())
		rb := xb.runAsNode(context.Background())
		// a run that panics (or that the executor stops as a runaway) is a run that did not succeed
		if ra.Panic != "" {
			ra.Err = fmt.Errorf("panic: %s", ra.Panic)
		}
		if rb.Panic != "" {
			rb.Err = fmt.Errorf("panic: %s", rb.Panic)
		}
		ta, tb := xa.snapshot()[ra.Lo:ra.Hi], xb.snapshot()[rb.Lo:rb.Hi]
		if ra.Err != nil && rb.Err != nil {
			classes["both-fail"] = true
			// the two executors must stay in step for the next run; they do unless the traces
			// differ, and then later runs say nothing
			if fmt.Sprint(shapeStrings(ta)) != fmt.Sprint(shapeStrings(tb)) {
				return ok(nontrivial, "both-fail-diverged")
			}
			continue
		}
		empties, innerEnd := 0, false
		for _, e := range ta {
			if e.Phase == "post" && e.RetErr == nil && e.RetAct == "" {
				empties++
			}
		}
		if n := len(ta); n > 0 && ta[n-1].Phase == "post" && ta[n-1].RetAct == "" && sc.Nodes[sc.Root].Flow != nil {
			innerEnd = true
		}
		if ra.Err == nil && ra.Action == "" {
			return bad("C18:twin-empty-action", "run %d of a depth-%d arrangement used as a node succeeded with the empty action; callbacks %v", r, sc.depth(sc.Root), traceStrings(ta))
		}
		if rb.Err == nil && rb.Action == "" {
			return bad("C18:twin-empty-action", "run %d of a depth-%d arrangement used as a node succeeded with the empty action; callbacks %v", r, sc.depth(sc.Root), traceStrings(tb))
		}
		if (ra.Err == nil) != (rb.Err == nil) {
			return bad("C18:twin-outcome", "run %d: with posts answering \"\" err=%v (callbacks %v); with the same posts answering \"default\" err=%v (callbacks %v)", r, ra.Err, traceStrings(ta), rb.Err, traceStrings(tb))
		}
		sa, sb := shapeStrings(ta), shapeStrings(tb)
		if fmt.Sprint(sa) != fmt.Sprint(sb) {
			return bad("C18:twin-route", "run %d: with posts answering \"\" the callbacks were %v; with the same posts answering \"default\" they were %v - the empty action was not treated as the default action", r, traceStrings(ta), traceStrings(tb))
		}
		if ra.Action != rb.Action {
			return bad("C18:twin-action", "run %d: final action %q with posts answering \"\", %q with the same posts answering \"default\"; callbacks %v", r, ra.Action, rb.Action, traceStrings(ta))
		}
		if empties > 0 {
			nontrivial = true
			classes["empty-action-in-successful-run"] = true
		}
		if empties > 1 {
			classes["several-empty-actions"] = true
		}
		if innerEnd {
			classes["flow-as-node-ends-on-empty-action"] = true
		}
	}
	var cl []string
	for c := range classes {
		cl = append(cl, c)
	}
	sortStrings(cl)
	return ok(nontrivial, append(cl, sc.batchClass()...)...)
}

// genC18Twin: C10's structured hierarchies (parents branch on the final action of inner flows)
// over an alphabet in which the empty action is frequent.
func genC18Twin(rt *rapid.T) WF {
	w := genC10(rt)
	for _, ns := range w.Nodes {
		if ns.Leaf == nil {
			continue
		}
		for j := range ns.Leaf.Visits {
			if perMille(rt, 350, "mkempty") {
				ns.Leaf.Visits[j].Action = ""
			}
		}
	}
	return w
}

func init() {
	registerReplay("C18", checkC18)
	registerReplaySub("C18", "twin-structured", checkC18Twin)
	registerReplaySub("C18", "twin-random", checkC18Twin)
}
