package harness

import (
	"context"
	"errors"
	"fmt"
	"testing"
	"time"

	"pgregory.net/rapid"
)

// C02 — retry budget and fallback are exact.

// c02Segment checks one node run against the retry/fallback model of its own script.
func c02Segment(sc *WF, seg []Ev) string {
	leaf, visit := seg[0].Leaf, seg[0].Visit
	l := sc.Nodes[leaf].Leaf
	name := fmt.Sprintf("L%d.v%d(kind=%d,N=%d)", leaf, visit, l.Kind, l.effN())
	if seg[0].Phase != "prep" || seg[0].RetErr != nil {
		return "" // nothing to say when prep failed (C01's business)
	}
	prep := seg[0]
	n := l.effN()
	// model: attempts = min(k, N), k = 1-based index of first scripted success
	want := n
	allFail := true
	for a := 0; a < n; a++ {
		if execOK(sc.outcome(leaf, visit, "exec", a)) {
			want, allFail = a+1, false
			break
		}
	}
	var execs []Ev
	var fbs []Ev
	var post *Ev
	for i := 1; i < len(seg); i++ {
		switch seg[i].Phase {
		case "exec":
			execs = append(execs, seg[i])
		case "fb":
			fbs = append(fbs, seg[i])
		case "post":
			post = &seg[i]
		}
	}
	if len(execs) != want {
		return fmt.Sprintf("%s: %d exec attempts, want exactly min(k,N)=%d (trace %v)", name, len(execs), want, traceStrings(seg))
	}
	for a, e := range execs {
		if e.Attempt != a {
			return fmt.Sprintf("%s: attempt numbering broken: %v", name, traceStrings(seg))
		}
		if !samePayload(e.In, prep.Ret) {
			return fmt.Sprintf("%s: attempt %d received %#v, prep returned %#v", name, a, e.In, prep.Ret)
		}
	}
	wantFb := 0
	if allFail && l.hasFb() {
		wantFb = 1
	}
	if len(fbs) != wantFb {
		return fmt.Sprintf("%s: fallback invoked %d times, want %d (all %d attempts failed=%v) trace %v", name, len(fbs), wantFb, n, allFail, traceStrings(seg))
	}
	var res any
	produced := false
	if wantFb == 1 {
		fb := fbs[0]
		lastErr := execs[len(execs)-1].RetErr
		if errMatches(fb.InErr, lastErr) != "" {
			return fmt.Sprintf("%s: fallback received error %q, the last attempt returned %q", name, fb.InErr, lastErr)
		}
		if !fbArgIs(fb.In, prep.Ret, l) {
			return fmt.Sprintf("%s: fallback received value %#v, prep returned %#v", name, fb.In, prep.Ret)
		}
		if fb.Seq < execs[len(execs)-1].Seq {
			return fmt.Sprintf("%s: fallback before the last attempt: %v", name, traceStrings(seg))
		}
		if fb.RetErr == nil {
			produced, res = true, fb.Ret
		}
	} else if !allFail {
		produced, res = true, execs[len(execs)-1].Ret
	}
	if produced {
		if post == nil {
			return fmt.Sprintf("%s: exec phase outcome not handed to post: %v", name, traceStrings(seg))
		}
		if !samePayload(post.In2, res) {
			return fmt.Sprintf("%s: post received %#v, want the %s outcome %#v", name, post.In2, map[bool]string{true: "fallback's", false: "successful attempt's"}[wantFb == 1], res)
		}
	} else if post != nil {
		return fmt.Sprintf("%s: post called although every attempt (and the fallback) failed: %v", name, traceStrings(seg))
	}
	return ""
}

func c02Body(sc *WF) Verdict {
	x := newWfExec(sc)
	// (scenarios may carry DeadlineMs from earlier versions of this check: contexts are outside
	// C02's quantifier - an implementation may legitimately stop retrying when the deadline it was
	// handed is too close - so every run gets context.Background())
	var ref *wfExec
	nontrivial := false
	classes := map[string]bool{}
	for r := 0; r < sc.runs(); r++ {
		ctx := context.Background()
		if ref != nil {
			// A context whose deadline lies BEYOND the natural end of the run (measured on a
			// reference run of the same scenario, plus a slack of DeadlineMs): the whole run fits, so
			// every attempt the budget allows must still be made.
			t := time.Now()
			ref.run(context.Background())
			natural := time.Since(t)
			c2, cancel := context.WithDeadline(ctx, time.Now().Add(natural+time.Duration(sc.DeadlineMs)*time.Millisecond))
			defer cancel()
			ctx = c2
		}
		rr := x.run(ctx)
		if runaway(rr.Panic) {
			return ok(false, "scenario-did-not-terminate") // C03/C10 territory, see runaway()
		}
		if rr.Panic != "" {
			return bad("C02:panic", "run panicked: %s", rr.Panic)
		}
		if ref != nil && rr.Err != nil && (errors.Is(rr.Err, context.DeadlineExceeded) || errors.Is(rr.Err, context.Canceled)) {
			// the implementation gave up because of the deadline it was handed (e.g. "not enough
			// time left for the wait"): contexts are outside C02's quantifier, nothing to assert
			return ok(false, "live-deadline-honoured-early")
		}
		if ctx.Err() != nil {
			// this run took longer than the reference run of the same scenario (waits need not be
			// reproducible, e.g. jitter): the deadline was not "beyond the end", nothing to assert
			return ok(false, "live-deadline-expired")
		}
		if sc.DeadlineMs > 0 {
			classes["live-deadline"] = true
		}
		tr := x.snapshot()[rr.Lo:rr.Hi]
		segs := segments(tr)
		if len(segs) > 0 {
			// "its outcome replaces the exec outcome": when the fallback itself fails, the run
			// ends with the fallback's error, not with the last attempt's
			last := segs[len(segs)-1]
			if fb := last[len(last)-1]; fb.Phase == "fb" && fb.RetErr != nil {
				if rr.Err == nil {
					return bad("C02:fallback-error-lost", "fallback failed with %q but the run succeeded", fb.RetErr)
				}
				if m := errMatches(rr.Err, fb.RetErr); m != "" {
					return bad("C02:fallback-outcome-not-adopted", "the fallback failed with %q, yet the run returned %q: the fallback's outcome must replace the exec outcome (%s)", fb.RetErr, rr.Err, m)
				}
			}
		}
		for _, seg := range segs {
			if msg := c02Segment(sc, seg); msg != "" {
				return bad("C02:retry-fallback", "%s", msg)
			}
			l := sc.Nodes[seg[0].Leaf].Leaf
			fails := 0
			for _, e := range seg {
				if e.Phase == "exec" && e.RetErr != nil {
					fails++
				}
				if e.Phase == "fb" {
					classes["fallback-ran"] = true
				}
			}
			if l.effN() >= 2 && fails >= 1 {
				nontrivial = true
			}
			if fails > 0 && fails < l.effN() {
				classes["recovered-by-retry"] = true
			}
			if fails == l.effN() {
				classes["budget-exhausted"] = true
			}
			classes[fmt.Sprintf("kind%d", l.Kind)] = true
		}
	}
	var cl []string
	for c := range classes {
		cl = append(cl, c)
	}
	sortStrings(cl)
	return ok(nontrivial, cl...)
}

func checkC02(t *testing.T, sc WF) Verdict {
	var v Verdict
	if f := Bubble(t, func() { v = c02Body(&sc) }); f != "" && !goroutinesRemain(f) {
		return bad("C02:bubble", "%s", f)
	}
	return v
}

// enumC02: N in 1..maxN x every failure sequence of length N+1 x fallback {ok, err, passthrough} x all kinds/styles.
func enumC02(maxN int, visit func(WF)) int {
	count := 0
	for kind := 0; kind < numKinds; kind++ {
		styles := []int{0}
		if kind == KFunc {
			styles = styles[:0]
			for s := 0; s < numStyles; s++ {
				styles = append(styles, s)
			}
		}
		for _, style := range styles {
			for n := 1; n <= maxN; n++ {
				for mask := 0; mask < 1<<(n+1); mask++ {
					for _, fb := range []Outcome{{Pay: 4}, {Err: 2}, {Err: 5}} {
						s := VisitScript{Action: "next", Fb: fb, Prep: Outcome{Pay: (mask + n) % numPayKinds}}
						for a := 0; a <= n; a++ {
							o := Outcome{Pay: (a + kind) % numPayKinds}
							if mask&(1<<a) != 0 {
								o.Err = errFlavors[(a+mask)%len(errFlavors)]
							}
							s.Exec = append(s.Exec, o)
						}
						l := &LeafSpec{Kind: kind, Style: style, N: n, ErrRes: mask%2 == 1, Visits: []VisitScript{s}}
						if !l.hasFb() && fb.Err != 0 {
							continue // the fallback script is irrelevant for kinds without a user fallback
						}
						visit(WF{Nodes: []NodeSpec{{Leaf: l}}, Fuel: 3})
						count++
					}
				}
			}
		}
	}
	return count
}

func TestC02(t *testing.T) {
	r := newRun(t, "C02")
	defer r.finish()
	maxN := 8
	i := 0
	n := enumC02(maxN, func(w WF) {
		if r.mine(i) {
			evalCase(r, "enum-single", w, checkC02)
		}
		i++
	})
	r.exhaustive(fmt.Sprintf("single node: N in 1..%d x every exec failure sequence of length N+1 x fallback{ok,err,passthrough} x all node kinds and function styles: %d cases", maxN, n))
	g := wfGen{MaxLeaves: 4, MaxFlows: 2, Actions: []string{"a", "b", ""}, PErr: 20, PExecErr: 550, MaxN: 8, Waits: true, MaxVisits: 3, FuelMax: 10, MaxRuns: 2}
	rapidPart(r, "rand-flow", r.pick(2000, 30000), func(rt *rapid.T) WF {
		w := g.gen(rt)
		return w
	}, checkC02)
	c02Batch(r)
}

func init() { registerReplay("C02", checkC02) }

// ---- every item of a batch gets the same exact retry/fallback treatment

func checkC02Batch(t *testing.T, sc BatchSc) Verdict {
	// stop mode included, but only items settled before the batch was stopped are held to the
	// exact budget (see judgeItems)
	sc.PrepErr = 0
	x, br, fail := runBatchCase(t, &sc, nil)
	if fail != "" && !goroutinesRemain(fail) {
		return bad("C02:bubble", "%s", fail)
	}
	if br.Rejected {
		return ok(false, "prep-form-rejected")
	}
	if br.Panic != "" {
		return bad("C02:panic", "run panicked: %s", br.Panic)
	}
	if fp, msg := judgeItems("C02", &sc, x, br); msg != "" {
		return bad(fp, "%s", msg)
	}
	fails := false
	for i := 0; i < sc.n(); i++ {
		if m := sc.modelItem(i); m.Attempts > 1 || !m.OK {
			fails = true
		}
	}
	cls := []string{"batch-item"}
	if sc.stop() {
		cls = append(cls, "batch-stop-mode")
	}
	if sc.C > 0 {
		cls = append(cls, "batch-concurrent")
	} else {
		cls = append(cls, "batch-sequential")
	}
	return ok(sc.budget() >= 2 && fails, cls...)
}

// ---- flows with a retry budget: a failing flow is re-run from its start, at most N times

func checkC02Flow(t *testing.T, sc WF) Verdict {
	var v Verdict
	f := Bubble(t, func() {
		x := newWfExec(&sc)
		m := newWfModel(&sc)
		retried := false
		for r := 0; r < sc.runs(); r++ {
			rr := x.run(context.Background())
			mr := m.run()
			if rr.Panic != "" {
				v = bad("C02:panic", "run panicked: %s", rr.Panic)
				return
			}
			tr := x.snapshot()[rr.Lo:rr.Hi]
			if !sameShape(tr, mr.Trace) {
				v = bad("C02:flow-retry", "flow with retry budget: callbacks %v, reference (re-run from the start node, at most N times, until the first success) %v", traceStrings(tr), modelStrings(mr.Trace))
				return
			}
			if (rr.Err == nil) != mr.OK {
				v = bad("C02:flow-retry-outcome", "err=%v, reference ok=%v", rr.Err, mr.OK)
				return
			}
			fails := 0
			for _, e := range tr {
				if e.RetErr != nil {
					fails++
				}
			}
			if fails > 0 && mr.OK {
				retried = true
			}
		}
		v = ok(retried, "flow-with-retry-budget")
	})
	if f != "" && !goroutinesRemain(f) {
		return bad("C02:bubble", "%s", f)
	}
	return v
}

func c02Batch(r *Run) {
	// Flows with a retry budget (FlowSpec.N, checkC02Flow) are supported by the executor and the
	// interpreter but NOT generated: a *flyt.Flow only becomes retryable by overwriting its
	// exported embedded BaseNode, which no constructor, option or document offers; a flyt in which
	// flows always get one attempt satisfies C02.
	g := batchGen{MinN: 1, MaxN: r.pick(4, 16), MaxC: 3, Modes: []int{0, 1, 2}, MaxBudget: 8, PFail: 550, Fb: true, Gated: 1, MaxSched: 40, Waits: true}
	rapidPart(r, "batch-items", r.pick(3000, 60000), g.gen, checkC02Batch)
}

func init() {
	registerReplaySub("C02", "batch-items", checkC02Batch)
	registerReplaySub("C02", "flow-retry", checkC02Flow)
}
