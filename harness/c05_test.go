package harness

import (
	"context"
	"errors"
	"fmt"
	"testing"
	"time"

	"pgregory.net/rapid"
)

// C05 — cancellation stops runs and flows and is reported as such.
//
// Every callback takes one virtual second (so deadlines can fall strictly inside one).
// Point -1 = context already done before the run; point k>=0 = cancellation strikes inside
// callback k of the cancellation-free reference run.

type C05Case struct {
	WF     WF     `json:"wf"`
	Point  int    `json:"point"`
	Flavor string `json:"flavor"` // cancel | deadline
}

type c05Ref struct {
	trace []Ev
	err   error
}

// c05Run executes the scenario once. If point >= 0 and flavor == "cancel", callback number
// `point` calls cancel(); for "deadline" the context carries a deadline at `at`.
func c05Run(sc *WF, flavor string, point int, at time.Duration) (tr []Ev, err error, ctxErr error, panicMsg string, cancelSeq int) {
	x := newWfExec(sc)
	var ctx context.Context
	var cancel context.CancelFunc
	base := time.Now()
	switch {
	case flavor == "deadline" && point >= -1:
		ctx, cancel = context.WithDeadline(context.Background(), base.Add(at))
	case flavor == "deadline-cause" && point >= -1:
		ctx, cancel = context.WithDeadlineCause(context.Background(), base.Add(at), errors.New("custom deadline cause"))
	case flavor == "cause":
		c2, cancelCause := context.WithCancelCause(context.Background())
		ctx, cancel = c2, func() { cancelCause(errors.New("custom cancellation cause")) }
	default:
		ctx, cancel = context.WithCancel(context.Background())
	}
	defer cancel()
	cancelSeq = -1
	x.hook = func(seq int, ev *Ev) {
		time.Sleep(500 * time.Millisecond)
		if (flavor == "cancel" || flavor == "cause") && seq == point {
			cancel()
		}
		time.Sleep(500 * time.Millisecond)
	}
	if point == -1 {
		if flavor == "cancel" || flavor == "cause" {
			cancel()
		} else {
			time.Sleep(at + time.Second) // let the deadline pass
		}
	}
	rr := x.run(ctx)
	return x.snapshot(), rr.Err, ctx.Err(), rr.Panic, point
}

func c05Check(c *C05Case) Verdict {
	sc := &c.WF
	// reference run (never cancelled)
	ref, refErr, _, p, _ := c05Run(sc, "none", -2, 0)
	if runaway(p) {
		return ok(false, "scenario-did-not-terminate") // C03/C10 territory, see runaway()
	}
	if p != "" {
		return bad("C05:panic", "reference run panicked: %s", p)
	}
	point := c.Point
	if point >= len(ref) {
		point = len(ref) - 1
	}
	var at time.Duration
	if point >= 0 {
		at = ref[point].T0 + 500*time.Millisecond
	}
	tr, err, ctxErr, p, _ := c05Run(sc, c.Flavor, point, at)
	if runaway(p) {
		return ok(false, "scenario-did-not-terminate") // C03/C10 territory, see runaway()
	}
	if p != "" {
		return bad("C05:panic", "run panicked: %s", p)
	}
	deadlineFlavor := c.Flavor == "deadline" || c.Flavor == "deadline-cause"
	if ctxErr == nil {
		if deadlineFlavor && point >= 0 {
			// the deadline was aimed at callback `point` of the reference run; this run's timeline
			// differed (waits need not be reproducible) and it was over before the deadline
			return ok(false, "flavor:"+c.Flavor, "deadline-after-run")
		}
		// cannot happen for point within the run; treat as harness inconsistency
		return inconclusive("context not done after injection at %d (%s)", point, c.Flavor)
	}
	if point == -1 {
		if len(tr) != 0 {
			return bad("C05:pre-done-callback", "context already done (%v) but callbacks were invoked: %v", ctxErr, traceStrings(tr))
		}
		if err == nil || !errors.Is(err, ctxErr) {
			return bad("C05:pre-done-error", "context already done (%v) but run returned %v", ctxErr, err)
		}
		return ok(false, "pre-done", "flavor:"+c.Flavor)
	}
	// (3) projected on the callbacks the property speaks about (node starts = prep, exec attempts)
	// the cancelled run must be a prefix of the reference run; fallback/post of the node that
	// was running are not constrained here
	proj := func(t []Ev) []Ev {
		var out []Ev
		for _, e := range t {
			if e.Phase == "prep" || e.Phase == "exec" {
				out = append(out, e)
			}
		}
		return out
	}
	pa, pr := proj(tr), proj(ref)
	if len(pa) > len(pr) {
		return bad("C05:extra", "cancelled run started more node runs / exec attempts than the reference: %v vs %v", traceStrings(tr), traceStrings(ref))
	}
	for i := range pa {
		if pa[i].Leaf != pr[i].Leaf || pa[i].Visit != pr[i].Visit || pa[i].Phase != pr[i].Phase || pa[i].Attempt != pr[i].Attempt {
			return bad("C05:diverged", "cancelled run diverges from the reference: %v vs %v", traceStrings(tr), traceStrings(ref))
		}
	}
	// The cancellation instant on THIS run's timeline: cancel() is called by callback `point`
	// itself, half a second after it started; a deadline is an absolute instant (proposed by the
	// reference run - which callback it hits here is read off this run's own stamps).
	if !deadlineFlavor {
		if len(tr) <= point || tr[point].Phase != ref[point].Phase || tr[point].Leaf != ref[point].Leaf {
			return inconclusive("injection point %d not reached: %v", point, traceStrings(tr))
		}
		at = tr[point].T0 + 500*time.Millisecond
	}
	point = -1
	for i, e := range tr {
		if e.T0 <= at {
			point = i
		}
	}
	if point < 0 {
		return inconclusive("no callback had started when the context was cancelled at %v: %v", at, traceStrings(tr))
	}
	if tr[point].Batch {
		// cancellation inside a batch node's own callbacks is C11's subject (a batch that was
		// cut short may still call post and report through its slots)
		return ok(false, "flavor:"+c.Flavor, "inside-batch-node")
	}
	// (2) after the cancellation instant: no exec attempt starts, no further node (prep) starts -
	// whatever kind the next node is
	for _, e := range tr[point+1:] {
		if e.Phase == "exec" || e.Phase == "prep" {
			return bad("C05:started-after-cancel:"+e.Phase, "context was cancelled at %v (during or after %s), yet %s was started afterwards: %v", at, tr[point], e, traceStrings(tr))
		}
	}
	// "cut short this way" = an exec attempt or a node start of the reference is missing; then the
	// error must be the context's. If only a fallback or post call is missing (an implementation
	// may stop consulting them once the context is done) the run must still not report success.
	cut := len(pa) < len(pr)
	if cut || len(tr) < len(ref) {
		if err == nil {
			return bad("C05:cut-short-success", "run was cut short by cancellation inside %s (ran %d of %d callbacks) but reported success", tr[point], len(tr), len(ref))
		}
		if cut && !errors.Is(err, ctxErr) {
			// One admissible exception: the run's last callback is a failed exec attempt after which
			// the reference went on to the fallback (the budget was exhausted in both runs) - an
			// implementation that no longer consults the fallback once the context is done ends the
			// node, and with it the flow, with that attempt's own error.
			last := tr[len(tr)-1]
			ownFailure := last.Phase == "exec" && last.RetErr != nil && len(ref) > len(tr) &&
				ref[len(tr)].Phase == "fb" && ref[len(tr)].Leaf == last.Leaf && ref[len(tr)].Visit == last.Visit &&
				errMatches(err, last.RetErr) == ""
			if !ownFailure {
				return bad("C05:cut-short-error", "run was cut short by cancellation but its error %q does not match %v", err, ctxErr)
			}
		}
	} else {
		// nothing was suppressed: the reference outcome or a context error are both fine
		if err != nil && !errors.Is(err, ctxErr) {
			if refErr == nil {
				return bad("C05:foreign-error", "complete run returned %q; reference succeeded and it is not the context error", err)
			}
		}
	}
	cls := []string{"flavor:" + c.Flavor, "in-" + tr[point].Phase}
	if sc.depth(sc.Root) >= 2 {
		cls = append(cls, "nested")
	}
	if cut {
		cls = append(cls, "cut-short")
	}
	cls = append(cls, sc.batchClass()...)
	return ok(cut, cls...)
}

func checkC05(t *testing.T, c C05Case) Verdict {
	var v Verdict
	if f := Bubble(t, func() { v = c05Check(&c) }); f != "" && !goroutinesRemain(f) {
		return bad("C05:bubble", "%s", f)
	}
	return v
}

// number of callbacks of the reference run (computed by the model; the real reference run
// is made inside the check).
func c05Points(sc *WF) int { return len(newWfModel(sc).run().Trace) }

func TestC05(t *testing.T) {
	r := newRun(t, "C05")
	defer r.finish()
	g := wfGen{MaxLeaves: 4, MaxFlows: 3, Actions: []string{"a", "b", ""}, PErr: 30, PExecErr: 350, MaxN: 4, Waits: true, MaxVisits: 2, FuelMax: 7, PBatch: 200}
	gs := wfGen{MaxLeaves: 1, Actions: []string{"a", ""}, PErr: 50, PExecErr: 500, MaxN: 4, Waits: true, MaxVisits: 1, FuelMax: 3}
	points := 0
	for _, part := range []struct {
		name string
		g    wfGen
		n    int
	}{{"single", gs, r.pick(500, 20000)}, {"flows", g, r.pick(600, 25000)}} {
		part := part
		r.t.Run(part.name, func(t *testing.T) {
			setRapidChecks(part.n)
			rapid.Check(t, func(rt *rapid.T) {
				w := part.g.gen(rt)
				n := c05Points(&w)
				for k := -1; k < n; k++ {
					// ("cause"/"deadline-cause" contexts are supported by c05Run but not generated: the
					// property quantifies over cancel and deadline contexts)
					for _, fl := range []string{"cancel", "deadline"} {
						c := C05Case{WF: w, Point: k, Flavor: fl}
						v := checkC05(t, c)
						points++
						if r.record(part.name, c, v) {
							rt.Fatalf("VIOLATION C05: %s", v.Violation)
						}
					}
				}
			})
		})
	}
	r.note("cancellation injected before the run and inside every callback of every reference run, as cancel() and as a deadline: %d injected runs in this shard", points)
}

func init() { registerReplay("C05", checkC05) }

var _ = fmt.Sprint
