package harness

// values.go — engine E3: value recipes. A recipe is a JSON-serialisable description from
// which the harness builds (with reflect where needed) a Go value of a generated type.
// Building the same recipe twice gives an independent twin.

import (
	"encoding/json"
	"errors"
	"fmt"
	"math"
	"reflect"
	"strconv"

	"pgregory.net/rapid"
)

type Recipe struct {
	K     string   `json:"k"`
	N     string   `json:"n,omitempty"` // number as text (so NaN/Inf/-0 survive JSON)
	S     string   `json:"s,omitempty"`
	B     bool     `json:"b,omitempty"`
	Elems []Recipe `json:"e,omitempty"`
	Keys  []string `json:"keys,omitempty"`
}

// named types reflect cannot create
type MyInt int
type MyStr string
type MyFloat float64
type MyBool bool
type MySlice []int
type MyMap map[string]any
type Rec []Rec
type Tagged struct {
	ID     int    `json:"id"`
	Name   string `json:"name"`
	secret int
}
type Loose struct {
	ID    int
	Name  string
	Extra []int
}
type Partial struct {
	Name string `json:"name"`
}
type WithSlice struct {
	A []int
	M map[string]int
}
type KeyT struct{ A, B int }
type ErrT struct{ Msg string }

func (e ErrT) Error() string { return e.Msg }

type StrT struct{ V int }

func (s StrT) String() string { return "strT" + strconv.Itoa(s.V) }

var numKinds14 = []string{"int", "int8", "int16", "int32", "int64", "uint", "uint8", "uint16", "uint32", "uint64", "float32", "float64"}

func parseF(s string) float64 {
	switch s {
	case "nan":
		return math.NaN()
	case "+inf":
		return math.Inf(1)
	case "-inf":
		return math.Inf(-1)
	case "-0":
		return math.Copysign(0, -1)
	}
	f, _ := strconv.ParseFloat(s, 64)
	return f
}

func parseI(s string) int64 {
	i, err := strconv.ParseInt(s, 10, 64)
	if err != nil {
		f, _ := strconv.ParseFloat(s, 64)
		return int64(f)
	}
	return i
}

func parseU(s string) uint64 {
	u, err := strconv.ParseUint(s, 10, 64)
	if err != nil {
		return uint64(parseI(s))
	}
	return u
}

// build constructs the value. Reference kinds are fresh on every call.
func (r Recipe) build() any {
	switch r.K {
	case "nil":
		return nil
	case "int":
		return int(parseI(r.N))
	case "int8":
		return int8(parseI(r.N))
	case "int16":
		return int16(parseI(r.N))
	case "int32":
		return int32(parseI(r.N))
	case "int64":
		return parseI(r.N)
	case "uint":
		return uint(parseU(r.N))
	case "uint8":
		return uint8(parseU(r.N))
	case "uint16":
		return uint16(parseU(r.N))
	case "uint32":
		return uint32(parseU(r.N))
	case "uint64":
		return parseU(r.N)
	case "uintptr":
		return uintptr(parseU(r.N))
	case "float32":
		return float32(parseF(r.N))
	case "float64":
		return parseF(r.N)
	case "complex":
		return complex(parseF(r.N), 1)
	case "string":
		return r.S
	case "bool":
		return r.B
	case "anyslice":
		out := make([]any, len(r.Elems))
		for i, e := range r.Elems {
			out[i] = e.build()
		}
		return out
	case "intslice":
		out := make([]int, len(r.Elems))
		for i, e := range r.Elems {
			out[i] = int(parseI(e.N))
		}
		return out
	case "strslice":
		out := make([]string, len(r.Elems))
		for i, e := range r.Elems {
			out[i] = e.S
		}
		return out
	case "f64slice":
		out := make([]float64, len(r.Elems))
		for i, e := range r.Elems {
			out[i] = parseF(e.N)
		}
		return out
	case "mapslice":
		out := make([]map[string]any, len(r.Elems))
		for i, e := range r.Elems {
			out[i] = map[string]any{"v": e.build()}
		}
		return out
	case "typedslice": // []T where T is the dynamic type of the first element (all elems same kind)
		if len(r.Elems) == 0 {
			return []uint16{}
		}
		first := r.Elems[0].build()
		if first == nil {
			return []any{nil}
		}
		sl := reflect.MakeSlice(reflect.SliceOf(reflect.TypeOf(first)), 0, len(r.Elems))
		for _, e := range r.Elems {
			v := e.build()
			if v != nil && reflect.TypeOf(v) == reflect.TypeOf(first) {
				sl = reflect.Append(sl, reflect.ValueOf(v))
			}
		}
		return sl.Interface()
	case "array":
		if len(r.Elems) == 0 {
			return [0]int{}
		}
		first := r.Elems[0].build()
		if first == nil {
			return [1]any{nil}
		}
		arr := reflect.New(reflect.ArrayOf(len(r.Elems), reflect.TypeOf(first))).Elem()
		for i, e := range r.Elems {
			v := e.build()
			if v != nil && reflect.TypeOf(v) == reflect.TypeOf(first) {
				arr.Index(i).Set(reflect.ValueOf(v))
			}
		}
		return arr.Interface()
	case "map":
		out := map[string]any{}
		for i, k := range r.Keys {
			if i < len(r.Elems) {
				out[k] = r.Elems[i].build()
			} else {
				out[k] = i
			}
		}
		return out
	case "mapint":
		out := map[string]int{}
		for i, k := range r.Keys {
			out[k] = i
		}
		return out
	case "mapintkey":
		out := map[int]string{}
		for i, k := range r.Keys {
			out[i] = k
		}
		return out
	case "mapstructkey":
		out := map[KeyT]int{}
		for i := range r.Keys {
			out[KeyT{i, i}] = i
		}
		return out
	case "struct": // anonymous struct type built with reflect from the elements' types
		var fields []reflect.StructField
		var vals []any
		for i, e := range r.Elems {
			v := e.build()
			if v == nil {
				continue
			}
			fields = append(fields, reflect.StructField{Name: "F" + strconv.Itoa(i), Type: reflect.TypeOf(v)})
			vals = append(vals, v)
		}
		st := reflect.New(reflect.StructOf(fields)).Elem()
		for i, v := range vals {
			st.Field(i).Set(reflect.ValueOf(v))
		}
		return st.Interface()
	case "ptr":
		if len(r.Elems) == 0 {
			return &Tok{Tag: r.S}
		}
		v := r.Elems[0].build()
		if v == nil {
			return (*int)(nil)
		}
		p := reflect.New(reflect.TypeOf(v))
		p.Elem().Set(reflect.ValueOf(v))
		return p.Interface()
	case "nilptr":
		return (*Tok)(nil)
	case "nilmap":
		return map[string]any(nil)
	case "nilmapint":
		return map[string]int(nil)
	case "nilslice":
		return []int(nil)
	case "nilanyslice":
		return []any(nil)
	case "nilfunc":
		return (func())(nil)
	case "nilchan":
		return (chan int)(nil)
	case "nilerr":
		return (*ErrT)(nil)
	case "func":
		return func() {}
	case "func2":
		return func(a int) int { return a }
	case "chan":
		return make(chan int, 1)
	case "MyInt":
		return MyInt(parseI(r.N))
	case "MyStr":
		return MyStr(r.S)
	case "MyFloat":
		return MyFloat(parseF(r.N))
	case "MyBool":
		return MyBool(r.B)
	case "MySlice":
		out := make(MySlice, len(r.Elems))
		for i, e := range r.Elems {
			out[i] = int(parseI(e.N))
		}
		return out
	case "MyMap":
		out := MyMap{}
		for i, k := range r.Keys {
			out[k] = i
		}
		return out
	case "Rec":
		n := len(r.Elems)
		out := make(Rec, n)
		for i := range out {
			out[i] = Rec{}
		}
		return out
	case "Tagged":
		return Tagged{ID: int(parseI(r.N)), Name: r.S, secret: 7}
	case "TaggedPtr":
		return &Tagged{ID: int(parseI(r.N)), Name: r.S, secret: 9}
	case "Loose":
		return Loose{ID: int(parseI(r.N)), Name: r.S, Extra: []int{1, 2}}
	case "Partial":
		return Partial{Name: r.S}
	case "WithSlice":
		return WithSlice{A: []int{int(parseI(r.N))}, M: map[string]int{r.S: 1}}
	case "TaggedSlice":
		return []Tagged{{ID: 1, Name: r.S, secret: 1}, {ID: int(parseI(r.N))}}
	case "ErrT":
		return ErrT{Msg: r.S}
	case "error":
		return errors.New(r.S)
	case "StrT":
		return StrT{V: int(parseI(r.N))}
	case "KeyT":
		return KeyT{A: int(parseI(r.N)), B: 2}
	case "errslice": // slice whose element type is a non-empty interface
		out := make([]error, len(r.Elems))
		for i, e := range r.Elems {
			if e.K != "nil" {
				out[i] = ErrT{Msg: e.S + e.N}
			}
		}
		return out
	case "stringerslice":
		out := make([]fmt.Stringer, len(r.Elems))
		for i, e := range r.Elems {
			out[i] = StrT{V: int(parseI(e.N))}
		}
		return out
	case "nilerrslice":
		return []error(nil)
	case "ifacearray":
		return [2]error{ErrT{Msg: "x"}, nil}
	case "mapiface":
		return map[string]error{"e": ErrT{Msg: r.S}}
	case "jsonnumber":
		return json.Number(r.N)
	case "rawmessage":
		return json.RawMessage(r.S)
	case "bytes":
		return []byte(r.S)
	case "rune":
		return rune(parseI(r.N))
	}
	panic("unknown recipe kind " + r.K)
}

// deepEq: reflect.DeepEqual but NaN == NaN and non-nil funcs/chans compare by pointer.
func deepEq(a, b any) bool {
	return deepEqV(reflect.ValueOf(a), reflect.ValueOf(b), 0)
}

func deepEqV(a, b reflect.Value, depth int) bool {
	if !a.IsValid() || !b.IsValid() {
		return a.IsValid() == b.IsValid()
	}
	if a.Type() != b.Type() {
		return false
	}
	if depth > 50 {
		return true
	}
	switch a.Kind() {
	case reflect.Float32, reflect.Float64:
		x, y := a.Float(), b.Float()
		return x == y && math.Signbit(x) == math.Signbit(y) || (math.IsNaN(x) && math.IsNaN(y))
	case reflect.Complex64, reflect.Complex128:
		return a.Complex() == b.Complex() || (a.Complex() != a.Complex() && b.Complex() != b.Complex())
	case reflect.Func:
		return a.IsNil() == b.IsNil()
	case reflect.Chan:
		return a.IsNil() == b.IsNil()
	case reflect.Interface, reflect.Ptr:
		if a.IsNil() || b.IsNil() {
			return a.IsNil() == b.IsNil()
		}
		return deepEqV(a.Elem(), b.Elem(), depth+1)
	case reflect.Slice:
		if a.IsNil() != b.IsNil() || a.Len() != b.Len() {
			return false
		}
		for i := 0; i < a.Len(); i++ {
			if !deepEqV(a.Index(i), b.Index(i), depth+1) {
				return false
			}
		}
		return true
	case reflect.Array:
		for i := 0; i < a.Len(); i++ {
			if !deepEqV(a.Index(i), b.Index(i), depth+1) {
				return false
			}
		}
		return true
	case reflect.Map:
		if a.IsNil() != b.IsNil() || a.Len() != b.Len() {
			return false
		}
		for _, k := range a.MapKeys() {
			bv := b.MapIndex(k)
			if !bv.IsValid() || !deepEqV(a.MapIndex(k), bv, depth+1) {
				return false
			}
		}
		return true
	case reflect.Struct:
		for i := 0; i < a.NumField(); i++ {
			if !deepEqV(a.Field(i), b.Field(i), depth+1) {
				return false
			}
		}
		return true
	case reflect.Bool:
		return a.Bool() == b.Bool()
	case reflect.Int, reflect.Int8, reflect.Int16, reflect.Int32, reflect.Int64:
		return a.Int() == b.Int()
	case reflect.Uint, reflect.Uint8, reflect.Uint16, reflect.Uint32, reflect.Uint64, reflect.Uintptr:
		return a.Uint() == b.Uint()
	case reflect.String:
		return a.String() == b.String()
	}
	return true
}

// ---- hostile constants and generators

var hostileInts = []string{"0", "1", "-1", "127", "128", "-128", "-129", "255", "256", "32767", "32768", "-32768", "65535", "65536",
	"2147483647", "2147483648", "-2147483648", "4294967295", "4294967296", "9007199254740991", "9007199254740992", "9007199254740993",
	"9223372036854775807", "-9223372036854775808", "42"}
var hostileUints = []string{"0", "1", "255", "65535", "4294967295", "9223372036854775807", "9223372036854775808", "18446744073709551615"}
var hostileFloats = []string{"0", "-0", "1", "-1", "0.5", "-0.5", "1.9999", "-1.9999", "nan", "+inf", "-inf", "1e19", "-1e19", "9.223372036854775807e18",
	"9007199254740993", "3.4028234663852886e38", "1e39", "5e-324", "2147483648.5", "-2147483649.5"}

func numRecipe(kind, n string) Recipe { return Recipe{K: kind, N: n} }

// hostileValues: the fixed list every run evaluates exhaustively (x every accessor).
func hostileValues() []Recipe {
	var out []Recipe
	out = append(out, Recipe{K: "nil"})
	for _, k := range numKinds14 {
		src := hostileInts
		if k[0] == 'u' {
			src = hostileUints
		}
		if k[0] == 'f' {
			src = hostileFloats
		}
		for _, n := range src {
			out = append(out, numRecipe(k, n))
		}
	}
	out = append(out, numRecipe("jsonnumber", "12"), numRecipe("jsonnumber", "1.5"), numRecipe("jsonnumber", "abc"),
		Recipe{K: "bytes", S: `{"id":5,"name":"raw"}`}, Recipe{K: "bytes", S: `[1,2]`}, Recipe{K: "bytes", S: `"str"`}, Recipe{K: "bytes", S: ""},
		Recipe{K: "rawmessage", S: `{"id":6,"name":"rm"}`}, Recipe{K: "string", S: `{"id":7}`})
	for _, k := range []string{"MyInt", "rune", "uintptr"} {
		out = append(out, numRecipe(k, "5"))
	}
	out = append(out, numRecipe("MyFloat", "nan"), numRecipe("MyFloat", "2.5"), numRecipe("complex", "1"), numRecipe("complex", "nan"))
	for _, s := range []string{"", "a", "é", "12", "true"} {
		out = append(out, Recipe{K: "string", S: s}, Recipe{K: "MyStr", S: s})
	}
	out = append(out, Recipe{K: "bool", B: true}, Recipe{K: "bool"}, Recipe{K: "MyBool", B: true})
	one := []Recipe{numRecipe("int", "1")}
	two := []Recipe{numRecipe("int", "1"), numRecipe("int", "2")}
	nan1 := []Recipe{numRecipe("float64", "nan")}
	out = append(out, Recipe{K: "nilerrslice"}, Recipe{K: "ifacearray"}, Recipe{K: "mapiface", S: "m"})
	for _, k := range []string{"anyslice", "intslice", "strslice", "f64slice", "mapslice", "typedslice", "array", "MySlice", "Rec", "errslice", "stringerslice"} {
		out = append(out, Recipe{K: k}, Recipe{K: k, Elems: one}, Recipe{K: k, Elems: two})
	}
	out = append(out, Recipe{K: "f64slice", Elems: nan1}, Recipe{K: "anyslice", Elems: nan1}, Recipe{K: "typedslice", Elems: nan1},
		Recipe{K: "typedslice", Elems: []Recipe{{K: "func"}}}, Recipe{K: "typedslice", Elems: []Recipe{{K: "map", Keys: []string{"a"}}}},
		Recipe{K: "typedslice", Elems: []Recipe{{K: "intslice", Elems: one}}}, Recipe{K: "anyslice", Elems: []Recipe{{K: "anyslice", Elems: one}}},
		Recipe{K: "anyslice", Elems: []Recipe{{K: "nil"}}}, Recipe{K: "typedslice", Elems: []Recipe{{K: "Tagged", N: "1"}}},
		Recipe{K: "array", Elems: []Recipe{{K: "intslice", Elems: one}}}, Recipe{K: "bytes", S: "hi"})
	for _, k := range []string{"map", "mapint", "mapintkey", "mapstructkey", "MyMap"} {
		out = append(out, Recipe{K: k}, Recipe{K: k, Keys: []string{"a"}}, Recipe{K: k, Keys: []string{"a", "b"}, Elems: one})
	}
	out = append(out, Recipe{K: "map", Keys: []string{"x"}, Elems: nan1}, Recipe{K: "map", Keys: []string{"f"}, Elems: []Recipe{{K: "func"}}},
		Recipe{K: "map", Keys: []string{"c"}, Elems: []Recipe{{K: "chan"}}}, Recipe{K: "map", Keys: []string{"m"}, Elems: []Recipe{{K: "map", Keys: []string{"n"}, Elems: one}}})
	for _, k := range []string{"nilptr", "nilmap", "nilmapint", "nilslice", "nilanyslice", "nilfunc", "nilchan", "nilerr", "func", "func2", "chan"} {
		out = append(out, Recipe{K: k})
	}
	out = append(out, Recipe{K: "ptr", S: "t"}, Recipe{K: "ptr", Elems: one}, Recipe{K: "ptr", Elems: []Recipe{{K: "intslice", Elems: two}}},
		Recipe{K: "ptr", Elems: []Recipe{{K: "map", Keys: []string{"a"}}}}, Recipe{K: "ptr", Elems: []Recipe{{K: "ptr", Elems: one}}})
	out = append(out, Recipe{K: "struct"}, Recipe{K: "struct", Elems: one}, Recipe{K: "struct", Elems: []Recipe{{K: "intslice", Elems: one}}},
		Recipe{K: "struct", Elems: []Recipe{{K: "map", Keys: []string{"a"}}, numRecipe("float64", "nan")}}, Recipe{K: "struct", Elems: []Recipe{{K: "func"}}},
		Recipe{K: "struct", Elems: []Recipe{{K: "string", S: "x"}, {K: "bool", B: true}, numRecipe("uint8", "3")}})
	for _, k := range []string{"Tagged", "TaggedPtr", "Loose", "Partial", "WithSlice", "TaggedSlice", "ErrT", "error", "StrT", "KeyT"} {
		out = append(out, Recipe{K: k, N: "3", S: "nm"})
	}
	return out
}

// genRecipe: random recipes of bounded depth.
func genRecipe(rt *rapid.T, depth int) Recipe {
	leaf := []string{"nil", "int", "int8", "int16", "int32", "int64", "uint", "uint8", "uint16", "uint32", "uint64", "float32", "float64",
		"string", "bool", "MyInt", "MyStr", "MyFloat", "MyBool", "nilptr", "nilmap", "nilmapint", "nilslice", "nilanyslice", "nilfunc", "nilchan", "nilerr",
		"func", "func2", "chan", "Tagged", "TaggedPtr", "Loose", "Partial", "WithSlice", "TaggedSlice", "ErrT", "error", "StrT", "KeyT", "complex", "bytes", "rune", "uintptr",
		"jsonnumber", "rawmessage", "mapint", "mapintkey", "mapstructkey", "MyMap", "MySlice", "Rec", "intslice", "strslice", "f64slice", "errslice", "stringerslice", "nilerrslice", "ifacearray", "mapiface"}
	comp := []string{"anyslice", "typedslice", "array", "map", "struct", "ptr", "mapslice"}
	var k string
	if depth <= 0 || uniform(rt, 3, "leaf") > 0 {
		k = leaf[uniform(rt, len(leaf), "leafkind")]
	} else {
		k = comp[uniform(rt, len(comp), "compkind")]
	}
	r := Recipe{K: k}
	switch {
	case k == "float32" || k == "float64" || k == "MyFloat" || k == "complex":
		r.N = hostileFloats[uniform(rt, len(hostileFloats), "f")]
	case len(k) > 3 && k[:4] == "uint":
		r.N = hostileUints[uniform(rt, len(hostileUints), "u")]
	default:
		r.N = hostileInts[uniform(rt, len(hostileInts), "i")]
	}
	r.S = rapid.SampledFrom([]string{"", "a", "é", "name", "12", `{"id":5,"name":"raw"}`, `[1]`}).Draw(rt, "s")
	r.B = rapid.Bool().Draw(rt, "b")
	switch k {
	case "anyslice", "typedslice", "array", "struct", "ptr", "mapslice", "map":
		n := rapid.IntRange(0, 3).Draw(rt, "nelem")
		if k == "ptr" && n > 1 {
			n = 1
		}
		for i := 0; i < n; i++ {
			r.Elems = append(r.Elems, genRecipe(rt, depth-1))
			r.Keys = append(r.Keys, "k"+strconv.Itoa(i))
		}
		if (k == "typedslice" || k == "array") && n > 1 {
			// homogeneous: copies of the first element's kind
			for i := 1; i < n; i++ {
				e := r.Elems[0]
				r.Elems[i] = e
			}
		}
	case "intslice", "strslice", "f64slice", "MySlice", "Rec", "errslice", "stringerslice":
		n := rapid.IntRange(0, 3).Draw(rt, "nelem")
		for i := 0; i < n; i++ {
			e := Recipe{K: "int", N: hostileInts[uniform(rt, len(hostileInts), "ei")], S: "e" + strconv.Itoa(i)}
			if k == "f64slice" {
				e.N = hostileFloats[uniform(rt, len(hostileFloats), "ef")]
			}
			r.Elems = append(r.Elems, e)
		}
	case "mapint", "mapintkey", "mapstructkey", "MyMap":
		n := rapid.IntRange(0, 3).Draw(rt, "nkeys")
		for i := 0; i < n; i++ {
			r.Keys = append(r.Keys, "k"+strconv.Itoa(i))
		}
	}
	return r
}

func describeVal(v any) string {
	s := fmt.Sprintf("%T", v)
	if len(s) > 60 {
		s = s[:60]
	}
	return s
}
