// Package harness is the black-box property-based verification harness for
// github.com/mark3labs/flyt (see /verif/DESIGN.md).
//
// core.go: the per-property run object (statistics, evidence fragments, replay
// files, known findings), the synctest bubble runner and small utilities.
package harness

import (
	"github.com/mark3labs/flyt"
	"reflect"
	"encoding/json"
	"fmt"
	"hash/fnv"
	"os"
	"path/filepath"
	"runtime"
	"runtime/debug"
	"sort"
	"strconv"
	"strings"
	"sync"
	"testing"
	"testing/synctest"
	"time"

	"pgregory.net/rapid"
)

// Verdict is what an oracle returns for one executed case.
type Verdict struct {
	Violation   string   // "" = property held on this case
	Fingerprint string   // shape of the violation (for known_findings.jsonl)
	NonTrivial  bool     // by the property's stated rule
	Classes     []string // generator-health labels
	Sample      any      // optional richer rendering of the case for evidence samples
	Replay      any      // optional: what to write as the replay scenario instead of the generated case (C13: case + recorded history)
}

func ok(nontrivial bool, classes ...string) Verdict {
	return Verdict{NonTrivial: nontrivial, Classes: classes}
}

func bad(fp string, format string, args ...any) Verdict {
	return Verdict{Violation: fmt.Sprintf(format, args...), Fingerprint: fp}
}

// ---------------------------------------------------------------------------------
// environment

type envCfg struct {
	tier      string
	out       string // shard statistics file
	replayDir string
	findings  string
	shard     int
	shards    int
	seed      uint64
}

func readEnv() envCfg {
	e := envCfg{tier: os.Getenv("VERIF_TIER"), out: os.Getenv("VERIF_OUT"),
		replayDir: os.Getenv("VERIF_REPLAY_DIR"), findings: os.Getenv("VERIF_FINDINGS")}
	if e.tier == "" {
		e.tier = "quick"
	}
	e.shards = 1
	if v, err := strconv.Atoi(os.Getenv("VERIF_SHARDS")); err == nil && v > 0 {
		e.shards = v
	}
	if v, err := strconv.Atoi(os.Getenv("VERIF_SHARD")); err == nil && v >= 0 {
		e.shard = v
	}
	if v, err := strconv.ParseUint(os.Getenv("VERIF_SEED"), 10, 64); err == nil {
		e.seed = v
	}
	if e.replayDir == "" {
		e.replayDir = filepath.Join(os.TempDir(), "verif-replays")
	}
	return e
}

// ---------------------------------------------------------------------------------
// known findings

type finding struct {
	Status      string `json:"status"` // "known" | "fixed"
	Property    string `json:"property"`
	Fingerprint string `json:"fingerprint"`
	Commit      string `json:"commit,omitempty"`
	What        string `json:"what"`
}

func loadFindings(path string) []finding {
	var out []finding
	if path == "" {
		return out
	}
	b, err := os.ReadFile(path)
	if err != nil {
		return out
	}
	for _, line := range strings.Split(string(b), "\n") {
		line = strings.TrimSpace(line)
		if line == "" || strings.HasPrefix(line, "#") {
			continue
		}
		var f finding
		if json.Unmarshal([]byte(line), &f) == nil {
			out = append(out, f)
		}
	}
	return out
}

// ---------------------------------------------------------------------------------
// Run: one property check in one process (one shard)

type shardStats struct {
	Property    string         `json:"property"`
	Tier        string         `json:"tier"`
	Shard       int            `json:"shard"`
	Evaluations int            `json:"evaluations"`
	NonTrivial  []uint64       `json:"nontrivial_hashes"`
	Classes     map[string]int `json:"classes"`
	Samples     []any          `json:"samples"`
	Exhaustive  []string       `json:"exhaustive_spaces"`
	Notes       []string       `json:"notes"`
	Violation   *violationRec  `json:"violation"`
	Known       map[string]int `json:"known_hits"`
	KnownWhat   map[string]string `json:"known_what"`
	Completed   bool           `json:"completed"`
	Inconclusive string        `json:"inconclusive,omitempty"`
}

type violationRec struct {
	Message     string `json:"message"`
	Fingerprint string `json:"fingerprint"`
	Replay      string `json:"replay"`
}

type replayFile struct {
	Property    string          `json:"property"`
	Sub         string          `json:"sub,omitempty"`
	Message     string          `json:"message,omitempty"`
	Fingerprint string          `json:"fingerprint,omitempty"`
	Scenario    json.RawMessage `json:"scenario"`
}

type Run struct {
	watchdogs int // cases that ended in the real-time watchdog without a verdict
	t     *testing.T
	id    string
	env   envCfg
	mu    sync.Mutex
	st    shardStats
	nt    map[uint64]struct{}
	seenC map[string]int // samples taken per class
	known []finding
	// smallest failing case seen so far
	failJSON []byte
	failSub  string
	failV    Verdict
	failed   bool
}

func newRun(t *testing.T, id string) *Run {
	r := &Run{t: t, id: id, env: readEnv(), nt: map[uint64]struct{}{}, seenC: map[string]int{}}
	r.st = shardStats{Property: id, Tier: r.env.tier, Shard: r.env.shard, Classes: map[string]int{},
		Known: map[string]int{}, KnownWhat: map[string]string{}}
	for _, f := range loadFindings(r.env.findings) {
		if f.Property == id && f.Status == "known" {
			r.known = append(r.known, f)
		}
	}
	return r
}

func (r *Run) thorough() bool { return r.env.tier == "thorough" }

// pick returns q in the quick tier and th in the thorough tier.
func (r *Run) pick(q, th int) int {
	if r.thorough() {
		return th
	}
	return q
}

// mine reports whether enumerated case number i belongs to this shard.
func (r *Run) mine(i int) bool { return i%r.env.shards == r.env.shard }

func (r *Run) isKnown(fp string) (finding, bool) {
	for _, f := range r.known {
		if f.Fingerprint == fp {
			return f, true
		}
	}
	return finding{}, false
}

func hashJSON(b []byte) uint64 {
	h := fnv.New64a()
	h.Write(b)
	return h.Sum64()
}

// record books one executed case. It returns true if the case is a (new, unknown) violation.
func (r *Run) record(sub string, sc any, v Verdict) bool {
	b, err := json.Marshal(sc)
	if err != nil {
		panic(fmt.Sprintf("scenario not serialisable: %v", err))
	}
	if v.Violation != "" && v.Replay != nil {
		if rb, err := json.Marshal(v.Replay); err == nil {
			b = rb
		}
	}
	r.mu.Lock()
	defer r.mu.Unlock()
	if strings.Contains(v.Violation, "WATCHDOG-INCONCLUSIVE") || strings.Contains(v.Violation, "HARNESS-INCONCLUSIVE") {
		r.st.Inconclusive = v.Violation
		if strings.Contains(v.Violation, "WATCHDOG-INCONCLUSIVE") {
			r.watchdogs++
		}
		return false
	}
	if v.Violation != "" {
		if f, isK := r.isKnown(v.Fingerprint); isK {
			r.st.Known[f.Fingerprint]++
			r.st.KnownWhat[f.Fingerprint] = f.What
			r.st.Evaluations++
			return false
		}
		if r.failJSON == nil || len(b) <= len(r.failJSON) {
			r.failJSON, r.failSub, r.failV = b, sub, v
		}
		r.failed = true
		return true
	}
	if r.failed {
		return false // shrinking in progress: do not pollute the statistics
	}
	r.st.Evaluations++
	if v.NonTrivial {
		r.nt[hashJSON(append([]byte(sub+"|"), b...))] = struct{}{}
	}
	cls := v.Classes
	if len(cls) == 0 {
		cls = []string{"unclassified"}
	}
	for _, c := range cls {
		r.st.Classes[c]++
	}
	// keep the first two non-trivial cases of the first few classes as samples
	key := sub + ":" + strings.Join(cls, ",")
	if v.NonTrivial && r.seenC[key] < 1 && len(r.st.Samples) < 12 {
		r.seenC[key]++
		var s any = json.RawMessage(b)
		if v.Sample != nil {
			s = map[string]any{"scenario": json.RawMessage(b), "observed": v.Sample}
		}
		r.st.Samples = append(r.st.Samples, map[string]any{"sub": sub, "classes": cls, "case": s})
	}
	return false
}

// eval runs check on an enumerated (non-rapid) case and fails the test at the first violation.
// gaveUp: two cases already ran into the real-time watchdog without a verdict (30 s each): the
// implementation cannot be observed with this machinery, the shard ends as inconclusive at once.
func (r *Run) gaveUp() bool {
	r.mu.Lock()
	defer r.mu.Unlock()
	return r.watchdogs >= 2
}

func evalCase[S any](r *Run, sub string, sc S, check func(*testing.T, S) Verdict) {
	if r.gaveUp() {
		return
	}
	v := check(r.t, sc)
	if r.record(sub, sc, v) {
		r.finish()
		r.t.Fatalf("VIOLATION %s [%s]: %s", r.id, sub, v.Violation)
	}
}

// rapidPart drives check with rapid-generated cases; on failure rapid shrinks the scenario.
func rapidPart[S any](r *Run, sub string, checks int, gen func(*rapid.T) S, check func(*testing.T, S) Verdict) {
	if r.failed {
		return
	}
	setRapidChecks(checks)
	r.t.Run(sub, func(t *testing.T) {
		rapid.Check(t, func(rt *rapid.T) {
			if r.gaveUp() {
				return
			}
			sc := gen(rt)
			v := check(t, sc)
			if r.record(sub, sc, v) {
				rt.Fatalf("VIOLATION %s [%s]: %s", r.id, sub, v.Violation)
			}
		})
	})
}

func (r *Run) exhaustive(space string) { r.st.Exhaustive = append(r.st.Exhaustive, space) }
func (r *Run) note(format string, a ...any) {
	r.st.Notes = append(r.st.Notes, fmt.Sprintf(format, a...))
}
func (r *Run) inconclusive(format string, a ...any) {
	r.st.Inconclusive = fmt.Sprintf(format, a...)
}

// finish writes the shard statistics (and the replay file if a violation was found).
func (r *Run) finish() {
	r.mu.Lock()
	defer r.mu.Unlock()
	if r.st.Completed {
		return
	}
	r.st.Completed = true
	if r.failed {
		os.MkdirAll(r.env.replayDir, 0o755)
		path := filepath.Join(r.env.replayDir, fmt.Sprintf("%s-seed%d-shard%d.json", r.id, r.env.seed, r.env.shard))
		rf := replayFile{Property: r.id, Sub: r.failSub, Message: r.failV.Violation, Fingerprint: r.failV.Fingerprint, Scenario: r.failJSON}
		b, _ := json.MarshalIndent(rf, "", " ")
		if err := os.WriteFile(path, b, 0o644); err != nil {
			fmt.Printf("cannot write replay: %v\n", err)
		}
		r.st.Violation = &violationRec{Message: r.failV.Violation, Fingerprint: r.failV.Fingerprint, Replay: path}
		fmt.Printf("HARNESS-VIOLATION property=%s replay=%s fingerprint=%s\n%s\n", r.id, path, r.failV.Fingerprint, r.failV.Violation)
	}
	r.st.NonTrivial = []uint64{}
	for h := range r.nt {
		r.st.NonTrivial = append(r.st.NonTrivial, h)
	}
	sort.Slice(r.st.NonTrivial, func(i, j int) bool { return r.st.NonTrivial[i] < r.st.NonTrivial[j] })
	if r.env.out != "" {
		b, _ := json.Marshal(r.st)
		if err := os.WriteFile(r.env.out, b, 0o644); err != nil {
			fmt.Printf("cannot write stats: %v\n", err)
		}
	}
}

// ---------------------------------------------------------------------------------
// rapid flag plumbing: the driver passes -rapid.seed / -rapid.nofailfile; the number of
// checks differs per sub-part, so it is set programmatically through the flag package.

func setRapidChecks(n int) {
	if n < 1 {
		n = 1
	}
	if f := flagLookup("rapid.checks"); f != nil {
		f.Value.Set(strconv.Itoa(n))
	}
}

// ---------------------------------------------------------------------------------
// bubble runner

// Bubble runs fn inside a testing/synctest bubble (virtual clock; Wait() = quiescence).
// It returns "" if fn returned normally and the bubble ended clean; otherwise a
// description: a panic inside fn, "deadlock: all goroutines in bubble are blocked",
// or "... blocked goroutines remain" (goroutine leak).
func Bubble(t *testing.T, fn func()) (failure string) {
	ch := make(chan string, 1)
	go func() {
		msg := ""
		returned := false
		defer func() {
			if r := recover(); r != nil {
				if msg == "" {
					msg = fmt.Sprintf("bubble: %v", r)
				}
			} else if !returned && msg == "" {
				msg = "bubble: aborted (FailNow/Goexit inside bubble)"
			}
			ch <- msg
		}()
		synctest.Test(t, func(st *testing.T) {
			defer func() {
				if r := recover(); r != nil {
					msg = fmt.Sprintf("panic inside case: %v\n%s", r, trimStack(debug.Stack()))
				}
			}()
			fn()
		})
		returned = true
	}()
	// The watchdog counts one-second ticks instead of waiting for one long timer: a machine that is
	// paused or starved for a while (a VM snapshot, a suspended process) then costs one tick, not the
	// whole budget, and the case is not declared stuck because the wall clock jumped.
	for tick := time.Duration(0); tick < bubbleWatchdog; tick += time.Second {
		select {
		case msg := <-ch:
			return msg
		case <-time.After(time.Second):
		}
	}
	// Real-time watchdog (this goroutine is outside the bubble). The bubble cannot detect a
	// deadlock that involves a goroutine blocked on a sync.Mutex, because such a goroutine is
	// not "durably blocked" and synctest.Wait() then never returns. The verdict is not based on
	// the elapsed time alone: the goroutine dump must show a bubble goroutine parked in
	// sync.Mutex.Lock called from flyt code; otherwise the case is inconclusive.
	buf := make([]byte, 4<<20)
	buf = buf[:runtime.Stack(buf, true)]
	if g := mutexBlockedInFlyt(string(buf)); g != "" {
		if w := harnessWithholds(string(buf)); w != "" {
			// Not a deadlock of the implementation: the holder of that mutex waits for something only
			// the harness's controller (a parked gate) or the virtual clock (a sleeper) can deliver,
			// and neither moves while a goroutine waits on a mutex (it is not "durably blocked").
			return "WATCHDOG-INCONCLUSIVE: a flyt goroutine waits on a mutex while " + w + "; an implementation that holds a mutex across a blocking operation cannot be observed under synctest:\n" + g
		}
		return "deadlock (watchdog after " + bubbleWatchdog.String() + " of real time): a goroutine of the case is blocked in sync.Mutex.Lock called from flyt while every other goroutine is parked:\n" + g
	}
	return "WATCHDOG-INCONCLUSIVE: case did not finish within " + bubbleWatchdog.String() + " of real time and no flyt goroutine is blocked on a mutex"
}

var bubbleWatchdog = 30 * time.Second

// gateWait parks a harness callback on a gate only the controller opens. It is a function of its
// own so that the watchdog can recognise such goroutines in a dump.
//
//go:noinline
func gateWait(ch <-chan struct{}) { <-ch }

// harnessWithholds: does the dump show a bubble goroutine parked on a harness gate, or one asleep
// on the (virtual) clock? Then progress depends on the controller / the clock, not on flyt.
func harnessWithholds(dump string) string {
	for _, g := range strings.Split(dump, "\n\n") {
		head, _, _ := strings.Cut(g, "\n")
		if !strings.Contains(head, "synctest bubble") {
			continue
		}
		if strings.Contains(g, "verifharness.gateWait(") {
			return "callbacks are parked on gates the controller has not opened"
		}
		if strings.Contains(head, "[sleep") || strings.Contains(g, "time.Sleep(") {
			return "goroutines are asleep on the virtual clock"
		}
	}
	return ""
}

// mutexBlockedInFlyt returns the stack of a goroutine that is inside a synctest bubble, waits
// in sync.(*Mutex).Lock / RWMutex and has a flyt frame, or "".
func mutexBlockedInFlyt(dump string) string {
	for _, g := range strings.Split(dump, "\n\n") {
		head, _, _ := strings.Cut(g, "\n")
		if !strings.Contains(head, "synctest bubble") {
			continue
		}
		if !(strings.Contains(head, "sync.Mutex.Lock") || strings.Contains(head, "sync.RWMutex") || strings.Contains(g, "sync.(*Mutex).Lock") || strings.Contains(g, "sync.(*RWMutex)")) {
			continue
		}
		// the function that called Lock (first frame that is not runtime/sync/internal) must be flyt's
		// own code - a callback waiting for a harness mutex does not count
		for _, ln := range strings.Split(g, "\n")[1:] {
			if strings.HasPrefix(ln, "\t") || strings.TrimSpace(ln) == "" {
				continue
			}
			fn := strings.TrimSpace(ln)
			if strings.HasPrefix(fn, "runtime.") || strings.HasPrefix(fn, "sync.") || strings.HasPrefix(fn, "internal/") {
				continue
			}
			if strings.HasPrefix(fn, "github.com/mark3labs/flyt.") {
				return trimStack([]byte(g))
			}
			break
		}
	}
	return ""
}

func trimStack(b []byte) string {
	s := string(b)
	lines := strings.Split(s, "\n")
	if len(lines) > 40 {
		lines = lines[:40]
	}
	return strings.Join(lines, "\n")
}

// recoverCall runs fn and reports a panic as a string (for "never panics" oracles).
func recoverCall(fn func()) (panicked bool, val any) {
	defer func() {
		if r := recover(); r != nil {
			panicked, val = true, r
		}
	}()
	fn()
	return false, nil
}

func itoa(i int) string { return strconv.Itoa(i) }

func sortStrings(s []string) { sort.Strings(s) }

// ---------------------------------------------------------------------------------
// replay registry: property id -> function that re-runs executor+oracle on a scenario JSON
// with rapid out of the loop.

var replayers = map[string]func(t *testing.T, sub string, raw json.RawMessage) Verdict{}

func registerReplay[S any](id string, check func(*testing.T, S) Verdict) {
	replayers[id] = func(t *testing.T, sub string, raw json.RawMessage) Verdict {
		var sc S
		if err := json.Unmarshal(raw, &sc); err != nil {
			return Verdict{Violation: "replay: cannot decode scenario: " + err.Error(), Fingerprint: "replay:decode"}
		}
		return check(t, sc)
	}
}

// registerReplaySub registers a replayer for one sub-part of a property whose scenario
// type differs from the property's main one.
func registerReplaySub[S any](id, sub string, check func(*testing.T, S) Verdict) {
	registerReplay(id+"/"+sub, check)
}

// writeFuzzReplay stores a violation found by a native fuzz target as an ordinary replay file.
func writeFuzzReplay(id string, sc any, v Verdict) string {
	e := readEnv()
	os.MkdirAll(e.replayDir, 0o755)
	b, _ := json.Marshal(sc)
	rf := replayFile{Property: id, Sub: "fuzz", Message: v.Violation, Fingerprint: v.Fingerprint, Scenario: b}
	out, _ := json.MarshalIndent(rf, "", " ")
	path := filepath.Join(e.replayDir, fmt.Sprintf("%s-fuzz-%x.json", id, hashJSON(b)))
	os.WriteFile(path, out, 0o644)
	fmt.Printf("HARNESS-VIOLATION property=%s replay=%s fingerprint=%s\n%s\n", id, path, v.Fingerprint, v.Violation)
	return path
}

// inconclusive builds a verdict that makes the run end as "inconclusive" (exit 2): the harness
// could not set up the situation it wanted to observe; this is never reported as a violation.
func inconclusive(format string, args ...any) Verdict {
	return Verdict{Violation: "HARNESS-INCONCLUSIVE: " + fmt.Sprintf(format, args...), Fingerprint: "harness"}
}

// embedded returns the exported (possibly promoted) field `name` of the struct obj points to, if
// there is one. The harness reaches the embedded *BaseNode / *CustomNode / *BatchNode of flyt's
// builder types this way only, so that it still builds against an implementation that does not
// export them (those routes are conveniences of today's API, not something a property states).
func embedded(obj any, name string) (f reflect.Value, ok bool) {
	defer func() {
		if recover() != nil {
			f, ok = reflect.Value{}, false
		}
	}()
	v := reflect.ValueOf(obj)
	if v.Kind() != reflect.Ptr || v.IsNil() || v.Elem().Kind() != reflect.Struct {
		return reflect.Value{}, false
	}
	f = v.Elem().FieldByName(name)
	if !f.IsValid() || !f.CanSet() {
		return reflect.Value{}, false
	}
	return f, true
}

// newBatchNode calls flyt.NewBatchNode(opts...) through reflection, so that the harness builds
// whether the constructor is declared with ...any (today) or with a typed option parameter.
func newBatchNode(opts []any) *flyt.BatchNodeBuilder {
	fn := reflect.ValueOf(flyt.NewBatchNode)
	ft := fn.Type()
	var args []reflect.Value
	if ft.NumIn() == 1 && ft.IsVariadic() {
		elem := ft.In(0).Elem()
		for _, o := range opts {
			v := reflect.ValueOf(o)
			if a, ok := asArg(v, elem); ok {
				args = append(args, a)
			}
		}
	}
	return fn.Call(args)[0].Interface().(*flyt.BatchNodeBuilder)
}

// asArg converts an option value to the constructor's parameter type: as it is, by conversion, or
// (a plain func(*BaseNode)) via flyt.NodeOption when the parameter is an interface NodeOption implements.
func asArg(v reflect.Value, elem reflect.Type) (reflect.Value, bool) {
	switch {
	case v.Type().AssignableTo(elem):
		return v, true
	case v.Type().ConvertibleTo(elem):
		return v.Convert(elem), true
	}
	if no := reflect.TypeOf(flyt.NodeOption(nil)); v.Type().ConvertibleTo(no) && no.AssignableTo(elem) {
		return v.Convert(no), true
	}
	return reflect.Value{}, false
}

// newNode calls flyt.NewNode(opts...) through reflection (see newBatchNode).
func newNode(opts []any) *flyt.NodeBuilder {
	fn := reflect.ValueOf(flyt.NewNode)
	ft := fn.Type()
	var args []reflect.Value
	if ft.NumIn() == 1 && ft.IsVariadic() {
		elem := ft.In(0).Elem()
		for _, o := range opts {
			v := reflect.ValueOf(o)
			if a, ok := asArg(v, elem); ok {
				args = append(args, a)
			}
		}
	}
	return fn.Call(args)[0].Interface().(*flyt.NodeBuilder)
}

// callBuilder calls the chained builder method `name` on b with one argument if b has such a
// method (the plain NodeBuilder's batch settings are a convenience an implementation may drop).
// It returns what the method returned (builders may be immutable: every With... returns a copy).
func callBuilder[B any](b B, name string, arg any) (B, bool) {
	m := reflect.ValueOf(b).MethodByName(name)
	if !m.IsValid() {
		return b, false
	}
	mt := m.Type()
	fixed := mt.NumIn()
	if mt.IsVariadic() {
		fixed-- // optional trailing arguments are left out
	}
	if fixed != 1 || !reflect.TypeOf(arg).AssignableTo(mt.In(0)) {
		return b, false
	}
	out := m.Call([]reflect.Value{reflect.ValueOf(arg)})
	if len(out) == 1 {
		if nb, ok := out[0].Interface().(B); ok {
			return nb, true
		}
	}
	return b, true
}

// setFallback installs fb through the builder method `name` if there is one taking a function of the
// shape (item, error) -> (value, error), where item and value may be typed any or flyt.Result.
func setFallback[B any](b B, name string, fb func(any, error) (any, error)) (B, bool) {
	m := reflect.ValueOf(b).MethodByName(name)
	if !m.IsValid() || m.Type().NumIn() != 1 || m.Type().In(0).Kind() != reflect.Func {
		return b, false
	}
	ft := m.Type().In(0)
	errT := reflect.TypeOf((*error)(nil)).Elem()
	resT := reflect.TypeOf(flyt.Result{})
	anyT := reflect.TypeOf((*any)(nil)).Elem()
	okT := func(t reflect.Type) bool { return t == resT || t == anyT }
	if ft.NumIn() != 2 || ft.NumOut() != 2 || !okT(ft.In(0)) || !okT(ft.Out(0)) || ft.In(1) != errT || ft.Out(1) != errT {
		return b, false
	}
	adapter := reflect.MakeFunc(ft, func(args []reflect.Value) []reflect.Value {
		var inErr error
		if !args[1].IsNil() {
			inErr = args[1].Interface().(error)
		}
		v, err := fb(args[0].Interface(), inErr)
		out0 := reflect.New(ft.Out(0)).Elem()
		if ft.Out(0) == resT {
			if r, isRes := v.(flyt.Result); isRes {
				out0.Set(reflect.ValueOf(r))
			} else {
				out0.Set(reflect.ValueOf(flyt.NewResult(v)))
			}
		} else if v != nil {
			out0.Set(reflect.ValueOf(v))
		}
		out1 := reflect.New(errT).Elem()
		if err != nil {
			out1.Set(reflect.ValueOf(err))
		}
		return []reflect.Value{out0, out1}
	})
	out := m.Call([]reflect.Value{adapter})
	if len(out) == 1 {
		if nb, ok := out[0].Interface().(B); ok {
			return nb, true
		}
	}
	return b, true
}

// intGetter / strGetter read a getter by name if the object has one (batch settings need not be
// readable on a plain node's builder).
func intGetter(obj any, name string) (int, bool) {
	m := reflect.ValueOf(obj).MethodByName(name)
	if !m.IsValid() || m.Type().NumIn() != 0 || m.Type().NumOut() != 1 || !m.Type().Out(0).ConvertibleTo(reflect.TypeOf(0)) {
		return 0, false
	}
	return int(m.Call(nil)[0].Convert(reflect.TypeOf(0)).Int()), true
}

func strGetter(obj any, name string) (string, bool) {
	m := reflect.ValueOf(obj).MethodByName(name)
	if !m.IsValid() || m.Type().NumIn() != 0 || m.Type().NumOut() != 1 {
		return "", false
	}
	return fmt.Sprint(m.Call(nil)[0].Interface()), true
}

func embeddedBase(obj any) *flyt.BaseNode {
	if f, ok := embedded(obj, "BaseNode"); ok {
		if b, isBase := f.Interface().(*flyt.BaseNode); isBase {
			return b
		}
	}
	return nil
}

// goroutinesRemain reports whether a bubble failure is only "goroutines outlived the case".
func goroutinesRemain(fail string) bool {
	return strings.Contains(fail, "blocked goroutines remain")
}
