package harness

import (
	"testing"
	"time"

	"pgregory.net/rapid"
)

type batchGen struct {
	MinN, MaxN int
	MaxC       int
	Modes      []int
	MaxBudget  int
	PFail      int // per-mille: an exec attempt fails
	PResErr    int // per-mille: an exec attempt returns an error Result with nil error
	PPreErr    int // per-mille: an item is a pre-made error Result
	Waits      bool
	Fb         bool
	LiveDeadline bool // sometimes give the run a context deadline that (usually) does not expire
	Rerun      bool // sometimes reconfigure the same node object and run it a second time
	Gated      int  // 0 never, 1 always, 2 either
	PrepForms  []int
	PPrepErr   int
	PPostErr   int
	MaxSched   int
}

func (g batchGen) gen(rt *rapid.T) BatchSc {
	var b BatchSc
	if len(g.PrepForms) > 0 {
		b.PrepForm = g.PrepForms[uniform(rt, len(g.PrepForms), "prepform")]
	} else {
		b.PrepForm = uniform(rt, numPrepForms, "prepform")
	}
	b.N = rapid.IntRange(g.MinN, g.MaxN).Draw(rt, "n")
	b.C = rapid.IntRange(0, g.MaxC).Draw(rt, "c")
	if len(g.Modes) > 0 {
		b.Mode = g.Modes[uniform(rt, len(g.Modes), "mode")]
	}
	b.Budget = rapid.IntRange(1, max(1, g.MaxBudget)).Draw(rt, "budget")
	if g.Waits && rapid.Bool().Draw(rt, "haswait") {
		b.WaitMs = rapid.SampledFrom([]int{1, 50, 3600000}).Draw(rt, "wait")
	}
	b.HasFb = g.Fb && rapid.Bool().Draw(rt, "hasfb")
	b.ExecAny = rapid.Bool().Draw(rt, "execany")
	b.ErrBoth = rapid.Bool().Draw(rt, "errboth")
	b.CfgBits = rapid.IntRange(0, 31).Draw(rt, "cfgbits")
	switch g.Gated {
	case 1:
		b.Gated = true
	case 2:
		b.Gated = rapid.Bool().Draw(rt, "gated")
	}
	n := b.n()
	resultsForm := b.PrepForm == PFResults || b.PrepForm == PFResultsCN
	for i := 0; i < n; i++ {
		var it ItemScript
		na := rapid.IntRange(1, b.budget()+1).Draw(rt, "nattempts")
		for a := 0; a < na; a++ {
			o := Outcome{Pay: uniform(rt, numPayKinds, "pay")}
			if perMille(rt, g.PFail, "fail") {
				o.Err = errFlavors[uniform(rt, len(errFlavors), "flavor")]
			} else if !b.ExecAny && perMille(rt, g.PResErr, "reserr") {
				o.Err = 6
			}
			it.Exec = append(it.Exec, o)
		}
		if b.HasFb {
			it.Fb = Outcome{Pay: uniform(rt, numPayKinds, "fbpay")}
			switch uniform(rt, 4, "fbkind") {
			case 1:
				it.Fb.Err = 1 + uniform(rt, 4, "fbflavor")
			case 2:
				it.Fb.Err = 5
			}
		}
		if resultsForm && !b.ExecAny && perMille(rt, g.PPreErr, "preerr") {
			it.PreErr = true
		}
		if !b.Gated {
			it.DurMs = rapid.IntRange(0, 20).Draw(rt, "dur")
		}
		b.Items = append(b.Items, it)
	}
	if perMille(rt, g.PPrepErr, "preperr") {
		b.PrepErr = 1 + uniform(rt, 4, "prepflavor")
	}
	if perMille(rt, g.PPostErr, "posterr") {
		b.PostErr = 1 + uniform(rt, 4, "postflavor")
	}
	b.PostAct = rapid.SampledFrom([]string{"done", "", "default"}).Draw(rt, "postact")
	if b.Gated {
		ns := rapid.IntRange(0, max(0, g.MaxSched)).Draw(rt, "nsched")
		for i := 0; i < ns; i++ {
			b.Sched = append(b.Sched, rapid.IntRange(0, 15).Draw(rt, "sched"))
		}
	}
	// (LiveDeadline / LiveSlackMs - a deadline beyond the natural end of the run - is no longer
	// generated: contexts are outside C02's and C07's quantifiers, and an implementation may stop
	// retrying when the deadline it was handed is too close)
	_ = g.LiveDeadline
	if g.Rerun && uniform(rt, 3, "rerun") == 0 {
		g2 := g
		g2.Rerun = false
		g2.PrepForms = []int{b.PrepForm}
		s := g2.gen(rt)
		s.N = b.N
		for len(s.Items) < s.n() {
			s.Items = append(s.Items, ItemScript{Exec: []Outcome{{}}})
		}
		s.PrepErr, s.PostErr = 0, 0
		b.Second = &s
	}
	return b
}

// runBatchCase executes one batch scenario inside a bubble.
func runBatchCase(t *testing.T, sc *BatchSc, qp func(x *batchExec) string) (x *batchExec, br batchRun, fail string) {
	fail = Bubble(t, func() {
		if false && sc.LiveSlackMs > 0 && sc.DeadlineMs == 0 {
			// reference run without any deadline -> natural duration of this scenario
			plain := *sc
			plain.LiveSlackMs = 0
			ref := newBatchExec(&plain)
			r0 := ref.run()
			live := *sc
			live.DeadlineMs = int(r0.Finished/time.Millisecond) + 1 + sc.LiveSlackMs
			x = newBatchExec(&live)
		} else {
			x = newBatchExec(sc)
		}
		x.qp = qp
		br = x.run()
		sawPrep := false
		for _, e := range br.Events {
			if e.Kind == "prep" {
				sawPrep = true
			}
		}
		if !sawPrep && br.Panic == "" && br.Err == nil && !br.Rejected {
			// the harness installs its prep/fallback callbacks by replacing the batch node's
			// embedded CustomNode; if an implementation ignores that, nothing can be observed
			br.Panic = "HARNESS-INCONCLUSIVE: the batch node never called the harness's prep callback (callbacks could not be installed)"
		}
	})
	return
}

// runBatchTwice runs the scenario, then reconfigures the same node object to sc.Second and
// runs it again. It returns the observations of the second run (and the effective scenario).
func runBatchTwice(t *testing.T, sc *BatchSc) (x *batchExec, eff *BatchSc, br batchRun, fail string) {
	second := *sc.Second
	second.PrepForm, second.HasFb, second.ExecAny, second.ErrBoth, second.NoPost, second.Gated = sc.PrepForm, sc.HasFb, sc.ExecAny, sc.ErrBoth, sc.NoPost, sc.Gated
	second.Second = nil
	if second.ExecAny || !(second.PrepForm == PFResults || second.PrepForm == PFResultsCN) {
		// pre-made error items can only be told apart by a Result-style exec function
		items := append([]ItemScript(nil), second.Items...)
		for i := range items {
			items[i].PreErr = false
		}
		second.Items = items
	}
	eff = &second
	fail = Bubble(t, func() {
		x = newBatchExec(sc)
		first := x.run()
		if first.Panic != "" {
			br = first
			return
		}
		x.reconfigure(eff)
		br = x.run()
	})
	return
}

// runBatchAgain runs the scenario, then runs the same node object once more - nothing is
// reconfigured - with sc.Second's items (config fields of Second are ignored: they are the first
// run's). It returns the observations of the second run and the scenario that describes it.
func runBatchAgain(t *testing.T, sc *BatchSc) (x *batchExec, eff *BatchSc, br batchRun, fail string) {
	second := *sc
	second.N, second.Items, second.Sched = sc.Second.N, sc.Second.Items, sc.Second.Sched
	second.PrepErr, second.PostErr, second.PostAct = 0, 0, sc.Second.PostAct
	second.Cancel, second.DeadlineMs, second.LiveSlackMs, second.Barrier, second.Prefer = nil, 0, 0, 0, nil
	second.Second = nil
	if second.ExecAny || !(second.PrepForm == PFResults || second.PrepForm == PFResultsCN) {
		items := append([]ItemScript(nil), second.Items...)
		for i := range items {
			items[i].PreErr = false
		}
		second.Items = items
	}
	eff = &second
	fail = Bubble(t, func() {
		x = newBatchExec(sc)
		first := x.run()
		if first.Panic != "" || first.Rejected {
			br = first
			return
		}
		x.rerun(eff)
		br = x.run()
	})
	return
}

// forEachSchedule enumerates every release order of a gated scenario by replay-based DFS:
// run with a schedule prefix, read how many parked callbacks were available at each step,
// advance the prefix like a mixed-radix odometer. visit returns false to stop.
func forEachSchedule(t *testing.T, base BatchSc, limit int, qp func(x *batchExec) string, visit func(sc BatchSc, x *batchExec, br batchRun, fail string) bool) (count int, complete bool) {
	sched := []int{}
	for {
		sc := base
		sc.Gated = true
		sc.Sched = append([]int(nil), sched...)
		x, br, fail := runBatchCase(t, &sc, qp)
		count++
		if !visit(sc, x, br, fail) {
			return count, false
		}
		if x == nil {
			return count, false
		}
		oc := x.optCounts
		full := make([]int, len(oc))
		copy(full, sched)
		i := len(oc) - 1
		for i >= 0 && full[i]%oc[i]+1 >= oc[i] {
			i--
		}
		if i < 0 {
			return count, true
		}
		full[i] = full[i]%oc[i] + 1
		sched = full[:i+1]
		if limit > 0 && count >= limit {
			return count, false
		}
	}
}
