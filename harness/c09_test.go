package harness

import (
	"fmt"
	"testing"

	"pgregory.net/rapid"
)

// C09 — stop-on-error halts the batch; unprocessed items are never reported as successes.

// firstFailure finds the item whose processing failed first (Go error after retries and
// fallback), by the order in which the failing final callbacks returned.
func firstFailure(sc *BatchSc, evs []BEv) (item int, last BEv, found bool) {
	n := sc.n()
	per := itemEvents(evs, n)
	best := -1
	for i := 0; i < n; i++ {
		if len(per[i]) == 0 {
			continue
		}
		m := sc.modelItem(i)
		e := per[i][len(per[i])-1]
		if !e.Ended || e.RetErr == nil {
			continue
		}
		// the item's processing ended in failure only if the model says no more attempts follow
		execs := 0
		for _, x := range per[i] {
			if x.Kind == "exec" {
				execs++
			}
		}
		if m.OK || m.ResErr || execs < m.Attempts || (m.FbRuns && e.Kind != "fb") {
			continue
		}
		if best < 0 || e.EndSeq < last.EndSeq {
			best, last = i, e
		}
	}
	return best, last, best >= 0
}

func judgeC09(sc *BatchSc, x *batchExec, br batchRun, fail string) Verdict {
	if fail != "" && !goroutinesRemain(fail) {
		return bad("C09:bubble", "%s", fail)
	}
	if br.Rejected {
		return ok(false, "prep-form-rejected")
	}
	if br.Panic != "" {
		return bad("C09:panic", "%s", br.Panic)
	}
	if x != nil && x.unattributed > 0 {
		return ok(false, "fallback-call-not-attributable")
	}
	n := sc.n()
	per := itemEvents(br.Events, n)
	f, lastEv, failed := firstFailure(sc, br.Events)
	after := 0
	lateStarts := 0
	if sc.stop() && failed {
		for _, e := range br.Events {
			if e.Kind != "exec" || e.Attempt != 0 || e.Item == f {
				continue
			}
			if sc.C <= 1 {
				// sequential or one worker: nothing after the failing item is executed at all
				if e.Seq > lastEv.Seq {
					return bad(fmt.Sprintf("C09:started-after-failure:c=%d", min(sc.C, 2)), "stop mode, concurrency %d: item %d was started after item %d had failed (events %v)", sc.C, e.Item, f, bevStrings(br.Events))
				}
			} else if e.Epoch >= lastEv.EndEpoch && e.Seq > lastEv.Seq {
				// "only items that were already picked up by the other c-1 workers can still run":
				// an implementation may have handed an item to each other worker before it started
				// it, so up to c-1 late starts are admissible - more are not
				lateStarts++
				if lateStarts > sc.C-1 {
					return bad("C09:started-after-failure:c>=2", "stop mode, %d workers: %d items were started after the failure of item %d had been handled (at most c-1=%d can have been picked up already); last: item %d (events %v)", sc.C, lateStarts, f, sc.C-1, e.Item, bevStrings(br.Events))
				}
			}
		}
		for i := f + 1; i < n; i++ {
			if len(per[i]) == 0 {
				after++
			}
		}
	}
	// (b) every mode: a slot is the real outcome of an execution that happened, or an error
	for call := 0; call < x.postCalls; call++ {
		res := x.postRes[call]
		if len(res) != n {
			return bad("C09:results-len", "post received %d results for %d items", len(res), n)
		}
		for i := 0; i < n; i++ {
			if len(per[i]) == 0 {
				if !res[i].IsError() {
					mode := "continue"
					if sc.stop() {
						mode = "stop"
					}
					return bad(fmt.Sprintf("C09:unexecuted-slot-not-error:mode=%s,c=%d", mode, min(sc.C, 1)), "item %d was never executed but its slot is presented as a success (%s); mode=%s concurrency=%d, first failing item %d", i, describeResult(res[i]), mode, sc.C, f)
				}
				continue
			}
			if res[i].IsError() {
				continue // an error is always admissible
			}
			if m := slotMatches(res[i], per[i]); m != "" {
				return bad("C09:slot", "slot %d: %s", i, m)
			}
		}
	}
	cls := []string{fmt.Sprintf("c=%d", sc.C)}
	if sc.stop() {
		cls = append(cls, "stop")
	} else {
		cls = append(cls, "continue")
	}
	if failed {
		cls = append(cls, "has-failure")
	}
	if after > 0 {
		cls = append(cls, "items-skipped")
	}
	return ok(sc.stop() && failed && f < n-1, cls...)
}

func checkC09(t *testing.T, sc BatchSc) Verdict {
	sc.PrepErr = 0
	sc.Gated = true
	x, br, fail := runBatchCase(t, &sc, nil)
	return judgeC09(&sc, x, br, fail)
}

// c09Case: n items, item f fails (all attempts), optional second failing item g.
func c09Case(n, c, mode, budget, f, g int, hasFb bool, sched []int) BatchSc {
	b := BatchSc{PrepForm: PFResults, N: n, C: c, Mode: mode, Budget: budget, HasFb: hasFb, Gated: true, PostAct: "done", Sched: sched, Prefer: []int{f}, CfgBits: (n*7 + c) % 32}
	for i := 0; i < n; i++ {
		it := ItemScript{Exec: []Outcome{{Pay: i % numPayKinds}}, Fb: Outcome{Err: 5}}
		if i == f || i == g {
			it.Exec[0].Err = 1 + i%4
		}
		b.Items = append(b.Items, it)
	}
	return b
}

func genC09(rt *rapid.T) BatchSc {
	n := rapid.IntRange(1, 16).Draw(rt, "n")
	c := rapid.IntRange(0, 4).Draw(rt, "c")
	mode := rapid.SampledFrom([]int{2, 2, 2, 1, 0}).Draw(rt, "mode")
	budget := rapid.IntRange(1, 3).Draw(rt, "budget")
	f := rapid.IntRange(0, n-1).Draw(rt, "f")
	g := -1
	if rapid.Bool().Draw(rt, "second") {
		g = rapid.IntRange(0, n-1).Draw(rt, "g")
	}
	var sched []int
	ns := rapid.IntRange(0, 40).Draw(rt, "nsched")
	for i := 0; i < ns; i++ {
		sched = append(sched, rapid.IntRange(0, 7).Draw(rt, "s"))
	}
	b := c09Case(n, c, mode, budget, f, g, rapid.Bool().Draw(rt, "fb"), sched)
	b.PrepForm = rapid.SampledFrom([]int{PFResults, PFAnySlice, PFIntSlice, PFResultsCN}).Draw(rt, "form")
	b.ExecAny = rapid.Bool().Draw(rt, "execany")
	// the failing items fail with any error flavour (incl. errors that wrap a context error although
	// the run's context is alive, non-comparable and net.Error-like ones): a failure is a failure
	for i := range b.Items {
		if b.Items[i].Exec[0].Err != 0 {
			b.Items[i].Exec[0].Err = errFlavors[uniform(rt, len(errFlavors), "flavor")]
		}
	}
	if b.HasFb {
		// fallback sometimes rescues the item (then it is not a failure at all)
		for i := range b.Items {
			if rapid.IntRange(0, 3).Draw(rt, "rescue") == 0 {
				b.Items[i].Fb = Outcome{Pay: i}
			}
		}
	}
	return b
}

func TestC09(t *testing.T) {
	r := newRun(t, "C09")
	defer r.finish()
	// every position of the first failing item, n up to 16 (quick: 8), c in 0..4, both modes,
	// release order of the rest: index order and one shuffled order
	maxN := r.pick(8, 16)
	k, cases := 0, 0
	for n := 1; n <= maxN; n++ {
		for c := 0; c <= 4; c++ {
			for _, mode := range []int{2, 1} {
				for f := 0; f < n; f++ {
					for si, sched := range [][]int{nil, {2, 1, 3, 0, 2, 1, 3, 1, 2, 0, 3, 1, 1, 2}} {
						if !r.mine(k) {
							k++
							continue
						}
						k++
						g := -1
						if si == 1 && f+2 < n {
							g = f + 2
						}
						evalCase(r, "each-position", c09Case(n, c, mode, 1+(n+f)%2, f, g, false, sched), checkC09)
						cases++
					}
				}
			}
		}
	}
	r.exhaustive(fmt.Sprintf("every position of the first failing item for n<=%d, c in 0..4, stop and continue mode, failing item released while the others are parked, two release orders of the rest", maxN))
	// all release orders of the rest for small cases
	for si, sp := range [][3]int{{5, 2, 1}, {6, 3, 2}, {6, 2, 0}, {7, 3, 4}} {
		if !r.mine(si) {
			continue
		}
		base := c09Case(sp[0], sp[1], 2, 1, sp[2], -1, false, nil)
		cnt, complete := forEachSchedule(t, base, r.pick(2000, 0), nil, func(sc BatchSc, x *batchExec, br batchRun, fail string) bool {
			v := judgeC09(&sc, x, br, fail)
			if r.record("enum-schedules", sc, v) {
				r.finish()
				t.Fatalf("VIOLATION C09: %s", v.Violation)
			}
			return true
		})
		if complete {
			r.exhaustive(fmt.Sprintf("stop mode n=%d c=%d failing item %d: all %d release orders of the non-failing items", sp[0], sp[1], sp[2], cnt))
		}
	}
	rapidPart(r, "rand", r.pick(3000, 150000), genC09, checkC09)
	// "in every mode each result slot is the real outcome or an error" also while a cancellation strikes
	rapidPart(r, "rand-cancelled", r.pick(1500, 25000), genC11, checkC09)
}

func init() { registerReplay("C09", checkC09) }
