package harness

// wf.go — engine E1: workflow scenarios (trees of flows over scripted leaf nodes),
// the trace recorder, every leaf node kind, the executor that builds real flyt
// objects, and the reference interpreter that never calls flyt.

import (
	"context"
	"errors"
	"fmt"
	"reflect"
	"strings"
	"sync"
	"time"

	"github.com/mark3labs/flyt"
)

// ---------------------------------------------------------------------------------
// scenario data (pure, JSON-serialisable)

// Outcome of one scripted callback.
// Err: 0 ok; 1 sentinel error; 2 wrapped sentinel; 3 custom pointer type; 4 custom value
// type; 5 (fallback only) return the very error that was passed in; 6 (Result-style exec
// functions only) return an error Result together with a nil error.
type Outcome struct {
	Err int `json:"err,omitempty"`
	Pay int `json:"pay,omitempty"` // payload kind, see mkPayload
}

type VisitScript struct {
	Prep   Outcome   `json:"prep"`
	Exec   []Outcome `json:"exec"` // attempt a uses Exec[min(a,len-1)]
	Fb     Outcome   `json:"fb"`   // only meaningful for kinds with a fallback
	Post   Outcome   `json:"post"` // Err != 0: post fails
	Action string    `json:"action"`
}

// Leaf kinds.
const (
	KBase        = iota // struct embedding *flyt.BaseNode, overriding Prep/Exec/Post
	KBaseFb             // ... and ExecFallback
	KPlain              // implements flyt.Node only: one attempt, no fallback
	KPlainRetry         // plain + GetMaxRetries/GetWait
	KPlainFb            // plain + ExecFallback
	KPlainRetryFb       // plain + both
	KFunc               // flyt.NewNode(...): Style bits select Result/Any functions etc.
	numKinds
)

// KBatch: a batch node (flyt.NewBatchNode builder) used as a member of flows. Its prep yields
// len(Exec) items (0..3); every item is executed once, sequentially, in continue mode (the
// defaults); item outcomes go to the result slots; post returns the scripted action. It is only
// generated where a check opts in (wfGen.PBatch) and never by "all kinds" generators.
const KBatch = 100

// Style bits for KFunc.
const (
	SPrepAny  = 1 << iota // prep function is Any style (else Result style)
	SExecAny              // exec function is Any style
	SPostAny              // post function is Any style
	SFallback             // WithExecFallbackFunc installed
	SBuilder              // configured through builder methods (else constructor options)
	numStyles = 1 << iota
)

type LeafSpec struct {
	Kind   int           `json:"kind"`
	Style  int           `json:"style,omitempty"`
	N      int           `json:"n"`                // retry budget (>=1)
	WaitMs int           `json:"wait_ms,omitempty"` // retry wait (virtual time)
	// WaitUs > 0 overrides WaitMs with a sub-millisecond wait (microseconds).
	WaitUs int `json:"wait_us,omitempty"`
	// TwinOf (KPlain only, pointer to an earlier KPlain leaf j): this leaf's node object is a
	// struct whose FIRST FIELD is leaf j's node object, so both nodes live at the same address
	// and differ only in their dynamic type - they are still two different nodes.
	TwinOf *int `json:"twin_of,omitempty"`
	// ErrRes: Result-style functions report a failure as (flyt.NewErrorResult(err), err)
	// instead of (flyt.Result{}, err) - both are legitimate ways to return a Go error.
	ErrRes bool `json:"err_res,omitempty"`
	Visits []VisitScript `json:"visits"`            // visit v uses Visits[v % len]
}

type Conn struct {
	From   int    `json:"from"`
	Action string `json:"action"`
	To     int    `json:"to"` // -1 = nil target
}

type FlowSpec struct {
	Start int    `json:"start"`
	Conns []Conn `json:"conns"`
	// N > 1: the flow's embedded BaseNode is replaced by one with a retry budget, so a
	// failing flow is re-run from its start node up to N times (C02: "all node kinds").
	N      int `json:"n,omitempty"`
	WaitMs int `json:"wait_ms,omitempty"`
}

// NodeSpec is a leaf or a flow; a flow may only reference nodes with a smaller index.
type NodeSpec struct {
	Leaf *LeafSpec `json:"leaf,omitempty"`
	Flow *FlowSpec `json:"flow,omitempty"`
}

// Injection overrides one scripted outcome (fault enumeration, C04).
type Injection struct {
	Leaf    int    `json:"leaf"`
	Visit   int    `json:"visit"`
	Phase   string `json:"phase"` // prep | exec | fb | post
	Attempt int    `json:"attempt"`
	Err     int    `json:"err"`
}

type WF struct {
	Nodes  []NodeSpec  `json:"nodes"`
	Root   int         `json:"root"`
	Fuel   int         `json:"fuel"`           // leaf visits before every post answers "halt"
	Runs   int         `json:"runs,omitempty"` // sequential runs of the same objects (default 1)
	// DeadlineMs > 0: every run gets a context with a deadline that many virtual ms after it starts.
	DeadlineMs int `json:"deadline_ms,omitempty"`
	Inject []Injection `json:"inject,omitempty"`
	// BehOf maps a leaf node index to the index of the leaf whose behaviour (scripts and
	// visit counter) it shares; nil = identity. Used by C10's flattening, where several
	// fresh wrapper nodes stand for occurrences of one original leaf.
	BehOf []int `json:"beh_of,omitempty"`
}

func (w *WF) beh(i int) int {
	if i < len(w.BehOf) && w.BehOf[i] >= 0 {
		return w.BehOf[i]
	}
	return i
}

const HaltAction = "halt" // reserved, never connected by any generator

func (l *LeafSpec) effN() int {
	switch l.Kind {
	case KPlain, KPlainFb, KBatch:
		return 1
	}
	if l.N < 1 {
		return 1
	}
	return l.N
}

func (l *LeafSpec) hasFb() bool {
	switch l.Kind {
	case KBaseFb, KPlainFb, KPlainRetryFb:
		return true
	case KFunc:
		return l.Style&SFallback != 0
	}
	return false
}

func (l *LeafSpec) script(visit int) *VisitScript { return &l.Visits[visit%len(l.Visits)] }

func (s *VisitScript) execOutcome(a int) Outcome {
	if len(s.Exec) == 0 {
		return Outcome{}
	}
	if a >= len(s.Exec) {
		a = len(s.Exec) - 1
	}
	return s.Exec[a]
}

// outcome returns the scripted outcome for (leaf, visit, phase, attempt) after injections.
func (w *WF) outcome(leaf, visit int, phase string, attempt int) Outcome {
	l := w.Nodes[leaf].Leaf
	s := l.script(visit)
	var o Outcome
	switch phase {
	case "prep":
		o = s.Prep
	case "exec":
		o = s.execOutcome(attempt)
	case "fb":
		o = s.Fb
	case "post":
		o = s.Post
	}
	for _, in := range w.Inject {
		if in.Leaf == leaf && in.Visit == visit && in.Phase == phase && (phase != "exec" || in.Attempt == attempt) {
			o.Err = in.Err
		}
	}
	if o.Err == 6 && !(phase == "exec" && l.Kind == KFunc && l.Style&SExecAny == 0) {
		o.Err = 0 // only a Result-style exec function can return an error Result with a nil error
	}
	return o
}

// execOK: the attempt does not count as failed (a value, or an error Result with nil error).
func execOK(o Outcome) bool { return o.Err == 0 || o.Err == 6 }

// resErrMarker is what the scripted exec body returns to ask the Result-style wrapper for
// (flyt.NewErrorResult(err), nil).
type resErrMarker struct{ err error }

// ---------------------------------------------------------------------------------
// payloads and errors

type Tok struct{ Tag string }
type Pair struct {
	A string
	B int
}

const numPayKinds = 13

func mkPayload(kind int, tag string) any {
	switch kind % numPayKinds {
	case 0:
		return &Tok{Tag: tag}
	case 1:
		return nil
	case 2:
		return len(tag) * 7
	case 3:
		return "s:" + tag
	case 4:
		return map[string]any{"tag": tag}
	case 5:
		return []any{tag, 1}
	case 6:
		return Pair{A: tag, B: len(tag)}
	case 7:
		return []int{len(tag), 2, 3}
	case 8:
		return (*Tok)(nil) // typed nils must keep their dynamic type
	case 9:
		return map[string]any(nil)
	case 10:
		return []string(nil)
	case 11:
		return errors.New("payload that happens to be an error value: " + tag) // a value, not a failure
	default:
		return ValErr{Tag: "value:" + tag}
	}
}

// samePayload decides "exactly the value": identity for reference kinds, deep equality else.
func samePayload(a, b any) bool {
	if a == nil || b == nil {
		return a == nil && b == nil
	}
	va, vb := reflect.ValueOf(a), reflect.ValueOf(b)
	if va.Type() != vb.Type() {
		return false
	}
	switch va.Kind() {
	case reflect.Ptr, reflect.Map, reflect.Chan, reflect.Func, reflect.UnsafePointer:
		return va.Pointer() == vb.Pointer()
	case reflect.Slice:
		return va.Pointer() == vb.Pointer() && va.Len() == vb.Len()
	}
	return reflect.DeepEqual(a, b)
}

// fbArgIs: the fallback received the prep value. For function-style nodes the value may arrive
// in the Result wrapper the phases are threaded through (as the batch path hands items over).
func fbArgIs(in, prep any, l *LeafSpec) bool {
	if samePayload(in, prep) {
		return true
	}
	if r, isRes := in.(flyt.Result); isRes && l.Kind == KFunc && !r.IsError() {
		return samePayload(r.Value(), prep)
	}
	return false
}

type PtrErr struct{ Tag string }

func (e *PtrErr) Error() string { return "ptrerr:" + e.Tag }

// SliceErr is an error whose dynamic type is not comparable (== on it panics).
type SliceErr []string

func (e SliceErr) Error() string { return "sliceerr:" + strings.Join(e, ",") }

// sameErr: interface equality that never panics (identity of the backing array for
// non-comparable error types).
func sameErr(a, b error) bool {
	if a == nil || b == nil {
		return a == nil && b == nil
	}
	ta, tb := reflect.TypeOf(a), reflect.TypeOf(b)
	if ta != tb {
		return false
	}
	if ta.Comparable() {
		return a == b
	}
	va, vb := reflect.ValueOf(a), reflect.ValueOf(b)
	if va.Kind() == reflect.Slice {
		return va.Pointer() == vb.Pointer() && va.Len() == vb.Len()
	}
	return reflect.DeepEqual(a, b)
}

// TempErr looks like a net.Error: retry policies keyed on Temporary() must not change the budget.
type TempErr struct {
	Tag  string
	Temp bool
}

func (e *TempErr) Error() string   { return "temperr:" + e.Tag }
func (e *TempErr) Temporary() bool { return e.Temp }
func (e *TempErr) Timeout() bool   { return !e.Temp }

type ValErr struct{ Tag string }

func (e ValErr) Error() string { return "valerr:" + e.Tag }

// LibLikeErr is a user error whose message looks like one of the library's own wrapping frames
// and which wraps a sentinel of its own: code that recognises "its" frames by their text must
// not strip it.
type LibLikeErr struct {
	Prefix, Tag string
	Inner       error
}

func (e *LibLikeErr) Error() string { return e.Prefix + e.Tag + ": " + e.Inner.Error() }
func (e *LibLikeErr) Unwrap() error { return e.Inner }

func mkErr(flavor int, tag string) error {
	switch flavor {
	case 14:
		return &LibLikeErr{Prefix: "run: exec failed after 1 retries: ", Tag: tag, Inner: errors.New("inner:" + tag)}
	case 15:
		return &LibLikeErr{Prefix: "flow: exec failed: batch: ", Tag: tag, Inner: errors.New("inner:" + tag)}
	case 2:
		return fmt.Errorf("wrapped[%s]: %w", tag, errors.New("inner:"+tag))
	case 3:
		return &PtrErr{Tag: tag}
	case 4:
		return ValErr{Tag: tag}
	case 7:
		// an attempt's own inner timeout: wraps a context error although the run's context is live
		return fmt.Errorf("attempt timed out [%s]: %w", tag, context.DeadlineExceeded)
	case 8:
		return fmt.Errorf("attempt aborted [%s]: %w", tag, context.Canceled)
	case 9:
		return SliceErr{"field", tag}
	case 10:
		return &TempErr{Tag: tag, Temp: false} // net.Error-like: exposes Temporary()/Timeout()
	case 11:
		return &TempErr{Tag: tag, Temp: true}
	default:
		return errors.New("sentinel:" + tag)
	}
}

// errTreeAny walks the whole error tree of got (Unwrap() error and Unwrap() []error).
func errTreeAny(got error, pred func(error) bool) bool {
	if got == nil {
		return false
	}
	if pred(got) {
		return true
	}
	switch u := got.(type) {
	case interface{ Unwrap() error }:
		return errTreeAny(u.Unwrap(), pred)
	case interface{ Unwrap() []error }:
		for _, e := range u.Unwrap() {
			if errTreeAny(e, pred) {
				return true
			}
		}
	}
	return false
}

// chainHas: the very value target occurs in got's error tree. For comparable targets this is
// errors.Is; a target whose dynamic type is not comparable can never match under errors.Is, so
// it is looked up by identity of its backing array.
func chainHas(got, target error) bool {
	if reflect.TypeOf(target).Comparable() {
		return errors.Is(got, target)
	}
	return errTreeAny(got, func(e error) bool { return sameErr(e, target) })
}

// errMatches: got must match the exact error value want under errors.Is / errors.As: want (and
// the sentinel it wraps, if any) is in got's tree, and errors.As finds a value of want's type.
// Wrapping, joining several errors and adding context are all admissible.
func errMatches(got, want error) string {
	if got == nil {
		return "returned error is nil"
	}
	if !chainHas(got, want) {
		return fmt.Sprintf("errors.Is/As(%q, %q) is false", got, want)
	}
	if inner := errors.Unwrap(want); inner != nil && !chainHas(got, inner) {
		return fmt.Sprintf("errors.Is/As(%q, inner %q) is false", got, inner)
	}
	okAs := true
	switch want.(type) {
	case *PtrErr:
		var p *PtrErr
		okAs = errors.As(got, &p)
	case ValErr:
		var v ValErr
		okAs = errors.As(got, &v)
	case *TempErr:
		var p *TempErr
		okAs = errors.As(got, &p)
	case SliceErr:
		var s SliceErr
		okAs = errors.As(got, &s)
	case *LibLikeErr:
		var p *LibLikeErr
		okAs = errors.As(got, &p)
	}
	if !okAs {
		return fmt.Sprintf("errors.As(%q) finds no value of type %T", got, want)
	}
	return ""
}

// ---------------------------------------------------------------------------------
// trace

type Ev struct {
	Seq     int
	Leaf    int
	Batch   bool // the leaf is a batch node (KBatch): exec events are items, Attempt = item index
	Visit   int
	Phase   string // prep | exec | fb | post
	Attempt int
	Store   *flyt.SharedStore // prep, post
	In      any               // exec/fb/post: the prep value received
	In2     any               // post: the exec result received
	InErr   error             // fb: the error received
	InIsErr bool              // Result-style functions: the argument Result had IsError()
	In2Err  error             // Result-style post: Error() of the exec Result argument
	In2Wrap bool              // post: the exec argument's value is itself a flyt.Result (wrapped twice)
	RetResErr error           // exec returned an error Result carrying this error (nil Go error)
	Ret     any
	RetErr  error
	RetAct  string
	T0, T1  time.Duration // virtual time since the executor was created
	Ctx     context.Context
}

func (e Ev) String() string {
	s := fmt.Sprintf("L%d.v%d.%s", e.Leaf, e.Visit, e.Phase)
	if e.Phase == "exec" {
		s += fmt.Sprintf("[%d]", e.Attempt)
	}
	if e.RetErr != nil {
		s += "!"
	}
	if e.Phase == "post" && e.RetErr == nil {
		s += "->" + e.RetAct
	}
	return s
}

func traceStrings(tr []Ev) []string {
	out := make([]string, len(tr))
	for i, e := range tr {
		out[i] = e.String()
	}
	return out
}

// ---------------------------------------------------------------------------------
// executor

type wfExec struct {
	sc      *WF
	mu      sync.Mutex
	trace   []Ev
	visits  []int // per leaf: number of preps seen
	attempt []int // per leaf: exec attempts seen in the current visit
	fuel    int
	t0      time.Time
	nodes   []flyt.Node
	// hook is called inside every callback, after the event is logged as started and
	// before the scripted outcome is returned (seq = index of the event in the trace).
	hook func(seq int, ev *Ev)
	// inflight counts harness callbacks that have begun and not yet ended (an implementation may
	// return from Run without waiting for a callback that ignores cancellation).
	inflight int
	// lastStore / storeSplit: behavioural "same store" probe, see probeStore.
	lastStore  *flyt.SharedStore
	lastStoreBy string
	storeSplit string
}

func newWfExec(sc *WF) *wfExec {
	x := &wfExec{sc: sc, visits: make([]int, len(sc.Nodes)), attempt: make([]int, len(sc.Nodes)), fuel: sc.Fuel, t0: time.Now()}
	x.nodes = make([]flyt.Node, len(sc.Nodes))
	// pass 1: node objects (a flow's start always has a smaller index, so it exists already)
	for i, ns := range sc.Nodes {
		if ns.Leaf != nil {
			if t := ns.Leaf.TwinOf; t != nil && *t >= 0 && *t < i && ns.Leaf.Kind == KPlain && sc.Nodes[*t].Leaf != nil && sc.Nodes[*t].Leaf.Kind == KPlain && sc.Nodes[*t].Leaf.TwinOf == nil {
				o := &twinOuter{in: plainLeaf{x, sc.beh(*t)}, x: x, id: sc.beh(i)}
				x.nodes[*t] = &o.in
				x.nodes[i] = o
				continue
			}
			x.nodes[i] = x.buildLeaf(sc.beh(i), ns.Leaf)
		}
	}
	for i, ns := range sc.Nodes {
		if ns.Flow != nil {
			f := flyt.NewFlow(x.nodes[ns.Flow.Start])
			if ns.Flow.N > 1 {
				if fld, ok := embedded(f, "BaseNode"); ok {
					fld.Set(reflect.ValueOf(flyt.NewBaseNode(flyt.WithMaxRetries(ns.Flow.N), flyt.WithWait(time.Duration(ns.Flow.WaitMs)*time.Millisecond))))
				}
			}
			x.nodes[i] = f
		}
	}
	// pass 2: connections (targets may be any node, including the flow itself or a later flow)
	for i, ns := range sc.Nodes {
		if ns.Flow == nil {
			continue
		}
		f := x.nodes[i].(*flyt.Flow)
		for _, c := range ns.Flow.Conns {
			var to flyt.Node
			if c.To >= 0 {
				to = x.nodes[c.To]
			}
			f.Connect(x.nodes[c.From], flyt.Action(c.Action), to)
		}
	}
	return x
}

func (x *wfExec) begin(ev Ev) int {
	x.mu.Lock()
	ev.Seq = len(x.trace)
	ev.T0 = time.Since(x.t0)
	if l := x.sc.Nodes[ev.Leaf].Leaf; l != nil && l.Kind == KBatch {
		ev.Batch = true
	}
	x.trace = append(x.trace, ev)
	x.inflight++
	seq := ev.Seq
	x.mu.Unlock()
	return seq
}

// probeStore establishes behaviourally whether the store handed to this callback is the store
// the previous callback of the run saw: a write through one must be visible through the other,
// in both directions (two handles onto one map are the same store; a copy is not).
func (x *wfExec) probeStore(s *flyt.SharedStore, by string) {
	if s == nil {
		return
	}
	x.mu.Lock()
	prev, prevBy := x.lastStore, x.lastStoreBy
	x.lastStore, x.lastStoreBy = s, by
	split := x.storeSplit
	x.mu.Unlock()
	if prev == nil || prev == s || split != "" {
		return
	}
	const k = "\x00verif-store-probe"
	s.Set(k, by)
	v1, ok1 := prev.Get(k)
	prev.Set(k, prevBy)
	v2, ok2 := s.Get(k)
	s.Delete(k)
	prev.Delete(k)
	if !ok1 || v1 != by || !ok2 || v2 != prevBy {
		x.mu.Lock()
		x.storeSplit = fmt.Sprintf("%s received store %p, %s received store %p, and a write through one is not visible through the other", by, s, prevBy, prev)
		x.mu.Unlock()
	}
}

// settle lets callbacks that are still running after Run has returned finish (virtual time),
// so that only goroutines flyt itself keeps blocked can outlive the case.
func (x *wfExec) settle() {
	for i := 0; i < 50; i++ {
		x.mu.Lock()
		n := x.inflight
		x.mu.Unlock()
		if n == 0 {
			return
		}
		// 1 ms, 2 ms, ... capped at 1 s: free in a bubble (virtual time), short outside of one
		d := time.Millisecond << min(i, 10)
		if d > time.Second {
			d = time.Second
		}
		time.Sleep(d)
	}
}

func (x *wfExec) end(seq int, ret any, err error, act string) {
	x.mu.Lock()
	e := &x.trace[seq]
	e.Ret, e.RetErr, e.RetAct = ret, err, act
	h := x.hook
	x.mu.Unlock()
	if h != nil {
		h(seq, e)
	}
	x.mu.Lock()
	x.trace[seq].T1 = time.Since(x.t0)
	x.inflight--
	x.mu.Unlock()
}

func (x *wfExec) snapshot() []Ev {
	x.mu.Lock()
	defer x.mu.Unlock()
	return append([]Ev(nil), x.trace...)
}

func (x *wfExec) tag(leaf, visit int, phase string, attempt int) string {
	return fmt.Sprintf("L%d.v%d.%s%d", leaf, visit, phase, attempt)
}

func (x *wfExec) prep(ctx context.Context, leaf int, store *flyt.SharedStore) (any, error) {
	x.mu.Lock()
	visit := x.visits[leaf]
	x.visits[leaf]++
	x.attempt[leaf] = 0
	x.fuel--
	runaway := x.fuel < -(3*x.sc.Fuel + 60)
	x.mu.Unlock()
	if runaway {
		// every post answers "halt" once the fuel is used up and "halt" is never connected, so a
		// correct flow ends within a few visits; this is a flow that does not stop
		panic(fmt.Sprintf("runaway flow: %d node runs after the fuel (%d) was exhausted", -x.fuel, x.sc.Fuel))
	}
	seq := x.begin(Ev{Leaf: leaf, Visit: visit, Phase: "prep", Store: store, Ctx: ctx})
	x.probeStore(store, fmt.Sprintf("L%d.v%d.prep", leaf, visit))
	o := x.sc.outcome(leaf, visit, "prep", 0)
	var ret any
	var err error
	if o.Err != 0 {
		err = mkErr(o.Err, x.tag(leaf, visit, "prep", 0))
	} else {
		ret = mkPayload(o.Pay, x.tag(leaf, visit, "prep", 0))
		// A prep value may also be one of flyt's own types - it is still just the node's value:
		// a []flyt.Result (any node kind), or - for struct nodes - a flyt.Result.
		kind := x.sc.Nodes[leaf].Leaf.Kind
		switch {
		case o.Pay%numPayKinds == 5 && (leaf+visit)%2 == 1:
			ret = []flyt.Result{flyt.NewResult(&Tok{Tag: x.tag(leaf, visit, "prep", 0)}), flyt.NewResult(1)}
		case o.Pay%numPayKinds == 6 && kind != KFunc && kind != KBatch && (leaf+visit)%2 == 1:
			ret = flyt.NewResult(&Tok{Tag: x.tag(leaf, visit, "prep", 0)})
		}
	}
	x.end(seq, ret, err, "")
	return ret, err
}

func (x *wfExec) cur(leaf int) int {
	v := x.visits[leaf] - 1
	if v < 0 {
		v = 0
	}
	return v
}

func (x *wfExec) exec(ctx context.Context, leaf int, in any, inIsErr bool) (any, error) {
	x.mu.Lock()
	visit := x.cur(leaf)
	a := x.attempt[leaf]
	x.attempt[leaf]++
	x.mu.Unlock()
	seq := x.begin(Ev{Leaf: leaf, Visit: visit, Phase: "exec", Attempt: a, In: in, InIsErr: inIsErr, Ctx: ctx})
	o := x.sc.outcome(leaf, visit, "exec", a)
	var ret any
	var err error
	switch {
	case o.Err == 6:
		re := mkErr(1, x.tag(leaf, visit, "reserr", a))
		x.mu.Lock()
		x.trace[seq].RetResErr = re
		x.mu.Unlock()
		x.end(seq, nil, nil, "")
		return resErrMarker{re}, nil
	case o.Err != 0:
		err = mkErr(o.Err, x.tag(leaf, visit, "exec", a))
		if o.Pay%2 == 1 && x.sc.Nodes[leaf].Leaf.Kind != KFunc {
			// a struct node's failing attempt may hand a (partial) value back together with its error;
			// nothing may ever use it (the retry / the fallback decides the outcome)
			x.end(seq, nil, err, "")
			return mkPayload(o.Pay, x.tag(leaf, visit, "stale", a)), err
		}
	default:
		ret = mkPayload(o.Pay, x.tag(leaf, visit, "exec", a))
	}
	x.end(seq, ret, err, "")
	return ret, err
}

func (x *wfExec) fb(leaf int, in any, inErr error) (any, error) {
	x.mu.Lock()
	visit := x.cur(leaf)
	x.mu.Unlock()
	seq := x.begin(Ev{Leaf: leaf, Visit: visit, Phase: "fb", In: in, InErr: inErr})
	o := x.sc.outcome(leaf, visit, "fb", 0)
	var ret any
	var err error
	switch {
	case o.Err == 5:
		err = inErr
	case o.Err != 0:
		err = mkErr(o.Err, x.tag(leaf, visit, "fb", 0))
	default:
		ret = mkPayload(o.Pay, x.tag(leaf, visit, "fb", 0))
	}
	if err != nil && o.Pay%2 == 1 {
		ret = in // a failing fallback may hand a value back together with its error
	}
	x.end(seq, ret, err, "")
	return ret, err
}

func (x *wfExec) post(ctx context.Context, leaf int, store *flyt.SharedStore, in, in2 any, in2IsErr bool, in2Err ...error) (flyt.Action, error) {
	x.mu.Lock()
	visit := x.cur(leaf)
	fuel := x.fuel
	x.mu.Unlock()
	ev := Ev{Leaf: leaf, Visit: visit, Phase: "post", Store: store, In: in, In2: in2, InIsErr: in2IsErr, Ctx: ctx}
	if len(in2Err) > 0 {
		ev.In2Err = in2Err[0]
	}
	if _, wrapped := in2.(flyt.Result); wrapped {
		ev.In2Wrap = true
	}
	seq := x.begin(ev)
	x.probeStore(store, fmt.Sprintf("L%d.v%d.post", leaf, visit))
	if store != nil {
		var path []int
		if v, ok := store.Get("path"); ok {
			path, _ = v.([]int)
		}
		store.Set("path", append(append([]int(nil), path...), leaf))
	}
	o := x.sc.outcome(leaf, visit, "post", 0)
	var err error
	act := x.sc.Nodes[leaf].Leaf.script(visit).Action
	if fuel <= 0 {
		act = HaltAction
	}
	if o.Err != 0 {
		err = mkErr(o.Err, x.tag(leaf, visit, "post", 0))
		if o.Pay%2 == 0 {
			act = "" // Pay odd: the failing post also returns its (non-empty) action
		} else if act == "" {
			act = "with-error"
		}
	}
	x.end(seq, nil, err, act)
	return flyt.Action(act), err
}

// ---- node kinds

type baseLeaf struct {
	*flyt.BaseNode
	x  *wfExec
	id int
}

func (n *baseLeaf) Prep(ctx context.Context, s *flyt.SharedStore) (any, error) {
	return n.x.prep(ctx, n.id, s)
}
func (n *baseLeaf) Exec(ctx context.Context, p any) (any, error) {
	return n.x.exec(ctx, n.id, p, false)
}
func (n *baseLeaf) Post(ctx context.Context, s *flyt.SharedStore, p, e any) (flyt.Action, error) {
	return n.x.post(ctx, n.id, s, p, e, false)
}

type baseLeafFb struct{ baseLeaf }

func (n *baseLeafFb) ExecFallback(p any, err error) (any, error) { return n.x.fb(n.id, p, err) }

type plainLeaf struct {
	x  *wfExec
	id int
}

func (n *plainLeaf) Prep(ctx context.Context, s *flyt.SharedStore) (any, error) {
	return n.x.prep(ctx, n.id, s)
}
func (n *plainLeaf) Exec(ctx context.Context, p any) (any, error) {
	return n.x.exec(ctx, n.id, p, false)
}
func (n *plainLeaf) Post(ctx context.Context, s *flyt.SharedStore, p, e any) (flyt.Action, error) {
	return n.x.post(ctx, n.id, s, p, e, false)
}

type plainRetryLeaf struct {
	plainLeaf
	n int
	w time.Duration
}

func (n *plainRetryLeaf) GetMaxRetries() int     { return n.n }
func (n *plainRetryLeaf) GetWait() time.Duration { return n.w }

type plainFbLeaf struct{ plainLeaf }

func (n *plainFbLeaf) ExecFallback(p any, err error) (any, error) { return n.x.fb(n.id, p, err) }

type plainRetryFbLeaf struct{ plainRetryLeaf }

func (n *plainRetryFbLeaf) ExecFallback(p any, err error) (any, error) {
	return n.x.fb(n.id, p, err)
}

// twinOuter's first field is another node (see LeafSpec.TwinOf).
type twinOuter struct {
	in plainLeaf
	x  *wfExec
	id int
}

func (n *twinOuter) Prep(ctx context.Context, s *flyt.SharedStore) (any, error) {
	return n.x.prep(ctx, n.id, s)
}
func (n *twinOuter) Exec(ctx context.Context, p any) (any, error) {
	return n.x.exec(ctx, n.id, p, false)
}
func (n *twinOuter) Post(ctx context.Context, s *flyt.SharedStore, p, e any) (flyt.Action, error) {
	return n.x.post(ctx, n.id, s, p, e, false)
}

func (l *LeafSpec) wait() time.Duration {
	if l.WaitUs > 0 {
		return time.Duration(l.WaitUs) * time.Microsecond
	}
	return time.Duration(l.WaitMs) * time.Millisecond
}

func (x *wfExec) buildLeaf(id int, l *LeafSpec) flyt.Node {
	n := l.N
	if n < 1 {
		n = 1
	}
	w := l.wait()
	switch l.Kind {
	case KBase:
		return &baseLeaf{BaseNode: flyt.NewBaseNode(flyt.WithMaxRetries(n), flyt.WithWait(w)), x: x, id: id}
	case KBaseFb:
		return &baseLeafFb{baseLeaf{BaseNode: flyt.NewBaseNode(flyt.WithWait(w), flyt.WithMaxRetries(n)), x: x, id: id}}
	case KPlain:
		return &plainLeaf{x: x, id: id}
	case KPlainRetry:
		return &plainRetryLeaf{plainLeaf{x, id}, n, w}
	case KPlainFb:
		return &plainFbLeaf{plainLeaf{x, id}}
	case KPlainRetryFb:
		return &plainRetryFbLeaf{plainRetryLeaf{plainLeaf{x, id}, n, w}}
	case KFunc:
		return x.buildFuncLeaf(id, l, n, w)
	case KBatch:
		return x.buildBatchLeaf(id, l)
	}
	panic("unknown leaf kind")
}

func (x *wfExec) buildBatchLeaf(id int, l *LeafSpec) flyt.Node {
	return flyt.NewBatchNode().
		WithPrepFunc(func(ctx context.Context, s *flyt.SharedStore) ([]flyt.Result, error) {
			if _, err := x.prep(ctx, id, s); err != nil {
				return nil, err
			}
			x.mu.Lock()
			visit := x.cur(id)
			x.mu.Unlock()
			items := make([]flyt.Result, len(l.script(visit).Exec))
			for i := range items {
				items[i] = flyt.NewResult(i)
			}
			return items, nil
		}).
		WithExecFunc(func(ctx context.Context, item flyt.Result) (flyt.Result, error) {
			v, err := x.exec(ctx, id, item.Value(), item.IsError())
			if err != nil {
				return flyt.Result{}, err
			}
			return flyt.NewResult(v), nil
		}).
		WithPostFunc(func(ctx context.Context, s *flyt.SharedStore, items, results []flyt.Result) (flyt.Action, error) {
			return x.post(ctx, id, s, len(items), len(results), false)
		})
}

func (x *wfExec) buildFuncLeaf(id int, l *LeafSpec, n int, w time.Duration) flyt.Node {
	prepR := func(ctx context.Context, s *flyt.SharedStore) (flyt.Result, error) {
		v, err := x.prep(ctx, id, s)
		if err != nil {
			if l.ErrRes {
				return flyt.NewErrorResult(err), err
			}
			return flyt.Result{}, err
		}
		return flyt.NewResult(v), nil
	}
	prepA := func(ctx context.Context, s *flyt.SharedStore) (any, error) { return x.prep(ctx, id, s) }
	execR := func(ctx context.Context, p flyt.Result) (flyt.Result, error) {
		v, err := x.exec(ctx, id, p.Value(), p.IsError())
		if err != nil {
			if l.ErrRes {
				return flyt.NewErrorResult(err), err
			}
			return flyt.Result{}, err
		}
		if m, isMarker := v.(resErrMarker); isMarker {
			return flyt.NewErrorResult(m.err), nil
		}
		return flyt.NewResult(v), nil
	}
	execA := func(ctx context.Context, p any) (any, error) { return x.exec(ctx, id, p, false) }
	postR := func(ctx context.Context, s *flyt.SharedStore, p, e flyt.Result) (flyt.Action, error) {
		return x.post(ctx, id, s, p.Value(), e.Value(), e.IsError(), e.Error())
	}
	postA := func(ctx context.Context, s *flyt.SharedStore, p, e any) (flyt.Action, error) {
		return x.post(ctx, id, s, p, e, false)
	}
	fb := func(p any, err error) (any, error) { return x.fb(id, p, err) }
	st := l.Style
	if st&SBuilder != 0 {
		b := flyt.NewNode().WithMaxRetries(n)
		if st&SPrepAny != 0 {
			b = b.WithPrepFuncAny(prepA)
		} else {
			b = b.WithPrepFunc(prepR)
		}
		if st&SExecAny != 0 {
			b = b.WithExecFuncAny(execA)
		} else {
			b = b.WithExecFunc(execR)
		}
		b = b.WithWait(w)
		if st&SPostAny != 0 {
			b = b.WithPostFuncAny(postA)
		} else {
			b = b.WithPostFunc(postR)
		}
		if st&SFallback != 0 {
			b = b.WithExecFallbackFunc(fb)
		}
		return b
	}
	opts := []any{flyt.WithWait(w)}
	if st&SPrepAny != 0 {
		opts = append(opts, flyt.WithPrepFuncAny(prepA))
	} else {
		opts = append(opts, flyt.WithPrepFunc(prepR))
	}
	if st&SFallback != 0 {
		opts = append(opts, flyt.WithExecFallbackFunc(fb))
	}
	if st&SExecAny != 0 {
		opts = append(opts, flyt.WithExecFuncAny(execA))
	} else {
		opts = append(opts, flyt.WithExecFunc(execR))
	}
	opts = append(opts, flyt.WithMaxRetries(n))
	if st&SPostAny != 0 {
		opts = append(opts, flyt.WithPostFuncAny(postA))
	} else {
		opts = append(opts, flyt.WithPostFunc(postR))
	}
	return newNode(opts)
}

// runaway: the executor's own termination device fired (every post answers "halt" once the fuel
// is used up, and "halt" is never connected). That presumes that flows route on the actions their
// members present (C03) and that an inner flow presents its last node's action (C10); checks of
// other properties treat it as "scenario could not be carried out", not as their violation.
func runaway(p string) bool { return strings.Contains(p, "runaway flow") }

// runResult is what one run of the root produced.
type runResult struct {
	Action flyt.Action
	Err    error
	Store  *flyt.SharedStore
	Lo, Hi int // trace[Lo:Hi] belongs to this run
	Panic  string
}

// run executes the root once (fresh fuel) on a fresh store.
func (x *wfExec) run(ctx context.Context) runResult { return x.runMode(ctx, false) }

// runAsNode runs the root through flyt.Run even when it is a flow, so that the action a flow
// presents as a node is observed (C18).
func (x *wfExec) runAsNode(ctx context.Context) runResult { return x.runMode(ctx, true) }

func (x *wfExec) runMode(ctx context.Context, asNode bool) runResult {
	x.mu.Lock()
	x.fuel = x.sc.Fuel
	lo := len(x.trace)
	x.lastStore, x.lastStoreBy = nil, ""
	x.mu.Unlock()
	store := flyt.NewSharedStore()
	var rr runResult
	rr.Store, rr.Lo = store, lo
	p, v := recoverCall(func() {
		root := x.nodes[x.sc.Root]
		if f, isFlow := root.(*flyt.Flow); isFlow && !asNode {
			// Flow.Run is the documented entry point for flows; the action is not exposed.
			rr.Err = f.Run(ctx, store)
			rr.Action = "(flow)"
		} else {
			rr.Action, rr.Err = flyt.Run(ctx, root, store)
		}
	})
	if p {
		rr.Panic = fmt.Sprint(v)
	}
	x.mu.Lock()
	rr.Hi = len(x.trace)
	x.mu.Unlock()
	x.settle()
	return rr
}

// ---------------------------------------------------------------------------------
// reference interpreter (never calls flyt)

type MEv struct {
	Leaf    int
	Visit   int
	Phase   string
	Attempt int
}

func (e MEv) String() string {
	s := fmt.Sprintf("L%d.v%d.%s", e.Leaf, e.Visit, e.Phase)
	if e.Phase == "exec" {
		s += fmt.Sprintf("[%d]", e.Attempt)
	}
	return s
}

type modelRun struct {
	Trace   []MEv
	OK      bool
	Action  string // final action of the root when OK
	EndEv   int    // index into Trace of the callback whose error ended the run (when !OK)
	Path    []int  // leaves whose post was entered, in order
	Visited []int  // leaves in visit (prep) order
	// InnerEnds counts completions of a flow used as a member of another flow;
	// InnerBranch those on which the parent followed a non-default connection.
	InnerEnds, InnerBranch int
}

type wfModel struct {
	sc     *WF
	visits []int
	fuel   int
	out    *modelRun
	onPost func() // called when the model enters a post (mirrors the executor's hook)
}

func newWfModel(sc *WF) *wfModel { return &wfModel{sc: sc, visits: make([]int, len(sc.Nodes))} }

func (m *wfModel) run() modelRun {
	m.fuel = m.sc.Fuel
	m.out = &modelRun{EndEv: -1}
	act, ok := m.node(m.sc.Root)
	m.out.OK, m.out.Action = ok, act
	return *m.out
}

func (m *wfModel) emit(e MEv) int {
	m.out.Trace = append(m.out.Trace, e)
	return len(m.out.Trace) - 1
}

func (m *wfModel) node(i int) (string, bool) {
	ns := m.sc.Nodes[i]
	if ns.Leaf != nil {
		b := m.sc.beh(i)
		return m.leaf(b, m.sc.Nodes[b].Leaf)
	}
	f := ns.Flow
	budget := f.N
	if budget < 1 {
		budget = 1
	}
	for attempt := 0; attempt < budget; attempt++ {
		if act, ok := m.flowPath(f); ok {
			return act, true
		}
	}
	return "", false
}

// flowPath walks one attempt of a flow from its start node.
func (m *wfModel) flowPath(f *FlowSpec) (string, bool) {
	cur := f.Start
	last := ""
	for {
		a, ok := m.node(cur)
		if !ok {
			return "", false
		}
		last = a
		// last Connect for (cur, a) wins
		next, found := -1, false
		for _, c := range f.Conns {
			if c.From == cur && c.Action == a {
				next, found = c.To, true
			}
		}
		if m.sc.Nodes[cur].Flow != nil {
			m.out.InnerEnds++
			if found && next >= 0 && a != string(flyt.DefaultAction) {
				m.out.InnerBranch++
			}
		}
		if !found || next < 0 {
			break
		}
		cur = next
	}
	return last, true
}

func (m *wfModel) leaf(i int, l *LeafSpec) (string, bool) {
	v := m.visits[i]
	m.visits[i]++
	m.fuel--
	m.out.Visited = append(m.out.Visited, i)
	k := m.emit(MEv{i, v, "prep", 0})
	if m.sc.outcome(i, v, "prep", 0).Err != 0 {
		m.out.EndEv = k
		return "", false
	}
	if l.Kind == KBatch {
		// every item is executed once; item outcomes go to the slots and never end the run
		for a := range l.script(v).Exec {
			m.emit(MEv{i, v, "exec", a})
		}
		return m.leafPost(i, v, l)
	}
	n := l.effN()
	success := false
	last := -1
	for a := 0; a < n; a++ {
		last = m.emit(MEv{i, v, "exec", a})
		if execOK(m.sc.outcome(i, v, "exec", a)) {
			success = true
			break
		}
	}
	if !success {
		if l.hasFb() {
			k := m.emit(MEv{i, v, "fb", 0})
			fo := m.sc.outcome(i, v, "fb", 0)
			if fo.Err == 5 {
				m.out.EndEv = last // the fallback hands back the last attempt's error
				return "", false
			} else if fo.Err != 0 {
				m.out.EndEv = k
				return "", false
			}
		} else {
			m.out.EndEv = last
			return "", false
		}
	}
	return m.leafPost(i, v, l)
}

func (m *wfModel) leafPost(i, v int, l *LeafSpec) (string, bool) {
	k := m.emit(MEv{i, v, "post", 0})
	m.out.Path = append(m.out.Path, i)
	if m.onPost != nil {
		m.onPost()
	}
	if m.sc.outcome(i, v, "post", 0).Err != 0 {
		m.out.EndEv = k
		return "", false
	}
	act := l.script(v).Action
	if m.fuel <= 0 {
		act = HaltAction
	}
	if act == "" {
		act = string(flyt.DefaultAction)
	}
	return act, true
}

func sameShape(tr []Ev, mt []MEv) bool {
	if len(tr) != len(mt) {
		return false
	}
	for i := range tr {
		if tr[i].Leaf != mt[i].Leaf || tr[i].Visit != mt[i].Visit || tr[i].Phase != mt[i].Phase || tr[i].Attempt != mt[i].Attempt {
			return false
		}
	}
	return true
}

func modelStrings(mt []MEv) []string {
	out := make([]string, len(mt))
	for i, e := range mt {
		out[i] = e.String()
	}
	return out
}
