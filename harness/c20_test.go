package harness

import (
	"context"
	"errors"
	"fmt"
	"testing"
	"time"

	"pgregory.net/rapid"
)

// C20 — retry wait is honoured between attempts and is interruptible.
// All times are virtual (synctest bubble): the assertions are exact, not tolerances.

type C20Case struct {
	// Single node: a one-leaf WF (Kind/Style/N/WaitMs, one visit).  Batch: a BatchSc.
	WF    *WF      `json:"wf,omitempty"`
	Batch *BatchSc `json:"batch,omitempty"`
	// CancelAfter >= 0: a deadline falls at a fraction Frac/8 of the wait that follows attempt
	// CancelAfter of the node (or of batch item CancelItem).
	CancelAfter int `json:"cancel_after"`
	CancelItem  int `json:"cancel_item,omitempty"`
	Frac        int `json:"frac,omitempty"`
	ExecMs      int `json:"exec_ms"` // virtual duration of every exec attempt
}

func c20Single(c *C20Case) Verdict {
	sc := c.WF
	l := sc.Nodes[sc.Root].Leaf
	w := l.wait()
	d := time.Duration(c.ExecMs) * time.Millisecond
	x := newWfExec(sc)
	x.hook = func(seq int, ev *Ev) {
		if ev.Phase == "exec" {
			time.Sleep(d)
		}
	}
	// model: number of attempts without cancellation
	mr := newWfModel(sc).run()
	attempts := 0
	for _, e := range mr.Trace {
		if e.Phase == "exec" {
			attempts++
		}
	}
	ctx := context.Background()
	var cancel context.CancelFunc = func() {}
	var deadline time.Duration = -1
	if c.CancelAfter >= 0 && c.CancelAfter < attempts-1 && w > 0 {
		// The deadline is aimed at the wait the implementation makes after attempt CancelAfter (it
		// may be longer than w, e.g. a back-off): a cancellation-free reference run of the same
		// scenario proposes the instant. Whether it really fell inside a wait is read off the
		// timeline of the judged run itself (waits may differ between runs, e.g. jitter).
		ref := newWfExec(sc)
		ref.hook = x.hook
		ref.run(context.Background())
		var re []Ev
		for _, e := range ref.snapshot() {
			if e.Phase == "exec" {
				re = append(re, e)
			}
		}
		if len(re) > c.CancelAfter+1 {
			from, to := re[c.CancelAfter].T1, re[c.CancelAfter+1].T0
			if to > from {
				deadline = from + (to-from)*time.Duration(1+c.Frac%7)/8
			}
		}
	}
	x.t0 = time.Now()
	if deadline >= 0 {
		ctx, cancel = context.WithDeadline(ctx, x.t0.Add(deadline))
	}
	defer cancel()
	rr := x.run(ctx)
	finished := time.Since(x.t0)
	if rr.Panic != "" {
		return bad("C20:panic", "%s", rr.Panic)
	}
	tr := x.snapshot()
	var execs []Ev
	for _, e := range tr {
		if e.Phase == "exec" {
			execs = append(execs, e)
		}
	}
	if len(execs) == 0 {
		return ok(false, "no-exec")
	}
	if execs[0].T0 != 0 {
		return bad("C20:wait-before-first", "first attempt started %v after the run began (wait %v must not precede it)", execs[0].T0, w)
	}
	for a := 1; a < len(execs); a++ {
		gap := execs[a].T0 - execs[a-1].T1
		if gap < w && w >= time.Millisecond { // (sub-millisecond waits are below the quantified range)
			return bad("C20:wait-too-short", "attempt %d started %v after attempt %d failed; configured wait is %v", a, gap, a-1, w)
		}
		// gap > w is admissible ("at least w"): e.g. a back-off policy
	}
	if deadline >= 0 && w < time.Millisecond {
		// cancellation during a sub-millisecond wait is below the quantified range (1 ms .. 1 h)
		return ok(false, "single", "sub-ms-wait")
	}
	if deadline >= 0 {
		// where did the deadline fall on THIS run's timeline?
		j := -1
		for a, e := range execs {
			if e.T1 <= deadline {
				j = a
			}
		}
		switch {
		case j < 0:
			return ok(false, "single", "deadline-outside-wait")
		case j+1 < len(execs) && execs[j+1].T0 <= deadline:
			// an attempt was in progress at the deadline: C05's business
			return ok(false, "single", "deadline-outside-wait")
		case j+1 < len(execs):
			return bad("C20:attempt-after-cancel", "deadline at %v fell into the wait after attempt %d (ended %v), yet attempt %d was started at %v", deadline, j, execs[j].T1, j+1, execs[j+1].T0)
		case finished < deadline || execs[j].T1 == deadline:
			return ok(false, "single", "deadline-outside-wait") // the run was over before the deadline
		}
		// the last attempt ended strictly before the deadline and the run went on until the deadline
		// or beyond without another attempt: it was waiting (fallback and post take no virtual time)
		if rr.Err == nil || !errors.Is(rr.Err, context.DeadlineExceeded) {
			return bad("C20:cancel-error", "cancelled during the wait after attempt %d but run returned %v", j, rr.Err)
		}
		// promptly = within a generous (virtual) minute; with the 1 h wait this is "without sleeping
		// out the remainder" (an implementation polling the context at some granularity is fine)
		if finished-deadline > time.Minute {
			return bad("C20:not-prompt", "cancellation at %v during a %v wait: run returned only at %v", deadline, w, finished)
		}
		return ok(true, "single", "cancel-in-wait", fmt.Sprintf("after-attempt-%d", j))
	}
	// (how many attempts are made is C02's business)
	last := execs[len(execs)-1]
	if finished != last.T1 {
		return bad("C20:wait-after-last", "run returned %v after the last attempt ended (no wait may follow the last attempt; wait=%v)", finished-last.T1, w)
	}
	return ok(len(execs) >= 2 && w > 0, "single", fmt.Sprintf("attempts=%d", min(len(execs), 5)))
}

func c20Batch(c *C20Case) Verdict {
	sc := c.Batch
	w := sc.wait()
	x := newBatchExec(sc)
	br := x.run()
	if br.Rejected {
		return ok(false, "batch", "prep-form-rejected")
	}
	if br.Panic != "" {
		return bad("C20:panic", "%s", br.Panic)
	}
	n := sc.n()
	per := itemEvents(br.Events, n)
	nontrivial := false
	var lastEnd time.Duration
	for i := 0; i < n; i++ {
		var execs []BEv
		for _, e := range per[i] {
			if e.Kind == "exec" {
				execs = append(execs, e)
			}
			if e.End > lastEnd {
				lastEnd = e.End
			}
		}
		for a := 1; a < len(execs); a++ {
			gap := execs[a].Start - execs[a-1].End
			if gap < w && w >= time.Millisecond {
				return bad("C20:item-wait", "item %d: attempt %d started %v after attempt %d failed; configured wait %v", i, a, gap, a-1, w)
			}
		}
		if len(execs) >= 2 && w > 0 {
			nontrivial = true
		}
		// (how many attempts an item gets is C02/C07's business; C20 judges the gaps of those made)
		if sc.DeadlineMs > 0 {
			dl := time.Duration(sc.DeadlineMs) * time.Millisecond
			for _, e := range execs {
				if e.Attempt == 0 || w < time.Millisecond {
					continue // whether an item is still STARTED after the deadline is C11's clause
				}
				if e.Start > dl {
					return bad("C20:item-attempt-after-cancel", "item %d attempt %d started at %v, after the deadline %v", i, e.Attempt, e.Start, dl)
				}
			}
		}
	}
	if sc.C == 0 && n > 0 {
		// sequential: the first attempt of item 0 starts at once; no wait after an item's last attempt
		if first := per[0]; len(first) > 0 && first[0].Start != 0 {
			return bad("C20:item-wait-before-first", "item 0's first attempt started at %v", first[0].Start)
		}
		for i := 1; i < n; i++ {
			if len(per[i]) == 0 || len(per[i-1]) == 0 || sc.DeadlineMs > 0 {
				continue
			}
			prevEnd := per[i-1][len(per[i-1])-1].End
			if gap := per[i][0].Start - prevEnd; gap != 0 {
				return bad("C20:item-wait-after-last", "item %d started %v after item %d finished (wait %v must not follow an item's last attempt)", i, gap, i-1, w)
			}
		}
	}
	if sc.DeadlineMs > 0 {
		dl := time.Duration(sc.DeadlineMs) * time.Millisecond
		// the run must end when the in-flight attempts end, without sleeping out any wait
		limit := dl
		if lastEnd > limit {
			limit = lastEnd
		}
		if br.Finished > limit+time.Minute {
			return bad("C20:batch-not-prompt", "deadline at %v, last callback ended at %v, but the run returned at %v (wait %v slept out?)", dl, lastEnd, br.Finished, w)
		}
		return ok(nontrivial, "batch", "deadline", fmt.Sprintf("c=%d", min(sc.C, 4)))
	}
	if br.Finished != lastEnd && n > 0 {
		return bad("C20:batch-wait-after-last", "run returned %v after the last callback ended", br.Finished-lastEnd)
	}
	return ok(nontrivial, "batch", fmt.Sprintf("c=%d", min(sc.C, 4)))
}

func checkC20(t *testing.T, c C20Case) Verdict {
	var v Verdict
	f := Bubble(t, func() {
		if c.WF != nil {
			v = c20Single(&c)
		} else {
			v = c20Batch(&c)
		}
	})
	if f != "" && !goroutinesRemain(f) {
		return bad("C20:bubble", "%s", f)
	}
	return v
}

// retry waits in microseconds: sub-millisecond, the property's 1..50 ms, and one hour
var c20Waits = []int{100, 999, 1000, 1900, 2000, 5000, 10000, 25000, 33333, 50000, 3600000000}

func c20SingleCase(kind, style, n, waitUs, mask, cancelAfter, frac, execMs int) C20Case {
	s := VisitScript{Action: "x", Fb: Outcome{Pay: 1}}
	for a := 0; a < n; a++ {
		o := Outcome{Pay: a}
		if mask&(1<<a) != 0 {
			o.Err = 1 + a%4
		}
		s.Exec = append(s.Exec, o)
	}
	w := &WF{Nodes: []NodeSpec{{Leaf: &LeafSpec{Kind: kind, Style: style, N: n, WaitUs: waitUs, Visits: []VisitScript{s}}}}, Fuel: 3}
	return C20Case{WF: w, CancelAfter: cancelAfter, Frac: frac, ExecMs: execMs}
}

func genC20Batch(rt *rapid.T) C20Case {
	g := batchGen{MinN: 1, MaxN: 10, MaxC: 4, Modes: []int{0, 1, 2}, MaxBudget: 5, PFail: 600, Fb: true, Gated: 0, PrepForms: []int{PFResults, PFAnySlice}}
	b := g.gen(rt)
	b.WaitUs = rapid.SampledFrom(c20Waits).Draw(rt, "wait")
	b.WaitMs = b.WaitUs / 1000
	for i := range b.Items {
		b.Items[i].DurMs = rapid.IntRange(0, 9).Draw(rt, "dur")
	}
	if rapid.IntRange(0, 2).Draw(rt, "deadline") == 0 {
		// somewhere within the first few waits
		b.DeadlineMs = rapid.IntRange(1, 3*b.WaitMs+20).Draw(rt, "dl")
	}
	return C20Case{Batch: &b, CancelAfter: -1}
}

func genC20Single(rt *rapid.T) C20Case {
	kinds := []int{KBase, KBaseFb, KPlainRetry, KPlainRetryFb, KFunc}
	kind := rapid.SampledFrom(kinds).Draw(rt, "kind")
	style := 0
	if kind == KFunc {
		style = rapid.IntRange(0, numStyles-1).Draw(rt, "style")
	}
	n := rapid.IntRange(2, 5).Draw(rt, "n")
	mask := rapid.IntRange(0, 1<<n-1).Draw(rt, "mask")
	ca := -1
	if rapid.Bool().Draw(rt, "cancel") {
		ca = rapid.IntRange(0, n-2).Draw(rt, "ca")
	}
	return c20SingleCase(kind, style, n, rapid.SampledFrom(c20Waits).Draw(rt, "wait"), mask, ca, rapid.IntRange(0, 6).Draw(rt, "frac"), rapid.IntRange(0, 30).Draw(rt, "execms"))
}

func TestC20(t *testing.T) {
	r := newRun(t, "C20")
	defer r.finish()
	// exhaustive: budgets 2..5 x all failure sequences x waits x {no cancel, deadline after each attempt index}
	k, cnt := 0, 0
	for _, kind := range []int{KBase, KPlainRetryFb, KFunc} {
		for n := 2; n <= 5; n++ {
			for mask := 0; mask < 1<<n; mask++ {
				for _, w := range c20Waits {
					for ca := -1; ca <= n-2; ca++ {
						if !r.mine(k) {
							k++
							continue
						}
						k++
						style := (mask + n) % numStyles
						evalCase(r, "enum-single", c20SingleCase(kind, style, n, w, mask, ca, mask%7, 1+mask%4), checkC20)
						cnt++
					}
				}
			}
		}
	}
	r.exhaustive("single nodes: budgets 2..5 x every failure sequence x waits {0.1, 0.999, 1, 2, 5, 10, 25, 50 ms, 1 h} x {no cancellation, deadline inside the wait after each attempt index} x 3 node kinds")
	rapidPart(r, "rand-single", r.pick(1500, 80000), genC20Single, checkC20)
	rapidPart(r, "rand-batch", r.pick(2500, 120000), genC20Batch, checkC20)
}

func init() { registerReplay("C20", checkC20) }
