package harness

import (
	"strings"
	"pgregory.net/rapid"
	"fmt"
	"sort"
	"testing"
	"time"

	"github.com/mark3labs/flyt"
)

// C06 — batch results correspond positionally to items; post sees all, once.

func judgeC06(sc *BatchSc, x *batchExec, br batchRun, fail string) Verdict {
	if fail != "" && !goroutinesRemain(fail) {
		return bad("C06:bubble", "%s", fail)
	}
	if br.Rejected {
		return ok(false, "prep-form-rejected")
	}
	if br.Panic != "" {
		return bad("C06:panic", "run panicked: %s", br.Panic)
	}
	if x != nil && x.unattributed > 0 {
		return ok(false, "fallback-call-not-attributable")
	}
	n := sc.n()
	if sc.PrepErr != 0 {
		return ok(false, "prep-fails") // the statement is about batches whose prep succeeded
	}
	if sc.NoPost {
		return ok(false, "no-post")
	}
	cancelled := sc.Cancel != nil || sc.DeadlineMs > 0
	if cancelled && x.postCalls == 0 && br.Err != nil {
		return ok(false, "cancelled-no-post")
	}
	if x.postCalls != 1 {
		return bad("C06:post-count", "post called %d times in one run (events %v)", x.postCalls, bevStrings(br.Events))
	}
	// In stop mode and under cancellation an implementation may call post at once and abandon
	// in-flight executions (their slots must then be errors, see below); "settled" = the slot is final.
	strictSettle := !sc.stop() && !cancelled
	if strictSettle && x.postInflight[0] != 0 {
		return bad("C06:post-before-settled", "post was entered while %d item executions were still in flight", x.postInflight[0])
	}
	items, results := x.postItems[0], x.postRes[0]
	if len(items) != n {
		return bad("C06:items-len", "post received %d items, prep produced %d", len(items), n)
	}
	if len(results) != n {
		return bad("C06:results-len", "post received %d results for %d items", len(results), n)
	}
	per := itemEvents(br.Events, n)
	var postStart time.Duration
	for _, e := range br.Events {
		if e.Kind == "post" {
			postStart = e.Start
		}
	}
	for i := 0; i < n; i++ {
		// items in the order prep produced them
		if m := x.itemIs(items[i], i); m != "" {
			return bad("C06:items-order", "post item %d: %s", i, m)
		}
		if len(per[i]) == 0 && sc.item(i).PreErr && results[i].IsError() && chainHas(results[i].Error(), x.itemErrs[i]) {
			continue // a pre-made error item handed through to its slot without an exec call is settled
		}
		if len(per[i]) == 0 {
			if sc.stop() || cancelled {
				// skipped by stop-on-error / cancellation: no outcome exists; C09/C11 require an error here
				if !results[i].IsError() {
					return bad("C06:skipped-slot-not-error", "item %d was never processed, yet result %d is %s", i, i, describeResult(results[i]))
				}
				continue
			}
			return bad("C06:item-not-settled", "item %d was never processed before post (continue mode)", i)
		}
		// "Settled" is decided by the item's completed callback chain: its last-started callback
		// (an exec attempt or the fallback) must have ended before post. An earlier attempt that is
		// still running - abandoned by an implementation that does not wait for a callback ignoring
		// a cancellation - does not make the item unsettled when the fallback has already decided it.
		unsettled := false
		if !strictSettle {
			last := per[i][len(per[i])-1]
			unsettled = !last.Ended || last.End > postStart
		} else {
			for _, e := range per[i] {
				if !e.Ended || e.End > postStart {
					unsettled = true
				}
			}
		}
		if unsettled {
			if strictSettle {
				return bad("C06:post-before-settled", "item %d still executing when post ran", i)
			}
			if !results[i].IsError() {
				return bad("C06:unsettled-slot-not-error", "item %d was still executing when post ran (stop mode / cancellation), yet result %d is presented as %s", i, i, describeResult(results[i]))
			}
			continue
		}
		if (cancelled || sc.stop()) && results[i].IsError() {
			// cancellation may cut an item's retries; in stop mode C09 allows an error in any slot
			// (e.g. outcomes that arrive after the batch was stopped may be discarded)
			continue
		}
		if m := slotMatches(results[i], per[i]); m != "" {
			return bad("C06:slot", "result %d does not belong to item %d: %s", i, i, m)
		}
	}
	passedThrough := 0
	for i := 0; i < n; i++ {
		if len(per[i]) == 0 && sc.item(i).PreErr {
			passedThrough++
		}
	}
	if x.postStarted[0]+passedThrough < n && strictSettle {
		return bad("C06:post-before-all-started", "post entered after only %d of %d items had been started", x.postStarted[0], n)
	}
	// (Run's return value is C04's business, not C06's.)
	// non-triviality: c>=2 and completion order differs from index order
	var ends []BEv
	for _, e := range br.Events {
		if e.Kind == "exec" {
			ends = append(ends, e)
		}
	}
	sort.Slice(ends, func(i, j int) bool { return ends[i].EndSeq < ends[j].EndSeq })
	outOfOrder := false
	for i := 1; i < len(ends); i++ {
		if ends[i].Item < ends[i-1].Item {
			outOfOrder = true
		}
	}
	cls := []string{fmt.Sprintf("form%d", sc.PrepForm)}
	if sc.C == 0 {
		cls = append(cls, "sequential")
	} else {
		cls = append(cls, "concurrent")
	}
	if n == 0 {
		cls = append(cls, "empty")
	}
	if outOfOrder {
		cls = append(cls, "out-of-order-completion")
	}
	if sc.Gated {
		cls = append(cls, "gated")
	} else {
		cls = append(cls, "ungated")
	}
	if sc.stop() {
		cls = append(cls, "stop-mode")
	}
	if cancelled {
		cls = append(cls, "cancelled")
	}
	return ok(sc.C >= 2 && outOfOrder, cls...)
}

func checkC06(t *testing.T, sc BatchSc) Verdict {
	x, br, fail := runBatchCase(t, &sc, nil)
	return judgeC06(&sc, x, br, fail)
}

// checkC06Again: the same batch node object is run a second time, untouched, with another item
// list (e.g. a batch node inside a loop); the second run is held to C06 like any run.
func checkC06Again(t *testing.T, sc BatchSc) Verdict {
	if sc.Second == nil {
		return checkC06(t, sc)
	}
	x, eff, br, fail := runBatchAgain(t, &sc)
	if x != nil && br.Err != nil && br.Panic == "" && len(br.Events) == 0 {
		// the implementation refuses to run this node object again (nothing was called): whether a
		// node may be run twice is not C06's clause
		return ok(false, "second-run-refused")
	}
	v := judgeC06(eff, x, br, fail)
	if v.Violation != "" {
		v.Violation = fmt.Sprintf("second run of the same node object (first run: %d items, this run: %d): %s", sc.n(), eff.n(), v.Violation)
		v.Fingerprint += ":rerun"
	}
	v.Classes = append(v.Classes, "second-run")
	if eff.n() < sc.n() {
		v.Classes = append(v.Classes, "second-run-shorter")
	}
	return v
}

// checkC06Dup: items whose payloads are nil or equal to each other are still n separate items:
// post gets n items in prep's order and n results, result i from an execution of its own.
func checkC06Dup(t *testing.T, c C07Dup) Verdict {
	v := dupCore(t, c, "C06")
	if v.Violation != "" {
		v.Fingerprint = "C06" + strings.TrimPrefix(v.Fingerprint, "C07")
	}
	return v
}

func modeContinue(m int) int {
	if m == 2 {
		return 1
	}
	return m
}

// c06Base is the scenario whose schedules are enumerated exhaustively: n items, c workers,
// budget 1, item i fails iff i%3==1 (so slots mix values and errors).
func c06Base(n, c, form int) BatchSc {
	b := BatchSc{PrepForm: form, N: n, C: c, Mode: 0, Budget: 1, Gated: true, PostAct: "done", CfgBits: (n + c) % 32}
	for i := 0; i < n; i++ {
		it := ItemScript{Exec: []Outcome{{Pay: i % numPayKinds}}}
		if i%3 == 1 {
			it.Exec[0].Err = 1 + i%4
		}
		b.Items = append(b.Items, it)
	}
	return b
}

func TestC06(t *testing.T) {
	r := newRun(t, "C06")
	defer r.finish()
	// exhaustive schedules
	type nc struct{ n, c int }
	var spaces []nc
	if r.thorough() {
		spaces = []nc{{4, 2}, {5, 3}, {6, 3}, {6, 4}, {7, 3}, {8, 4}, {9, 4}, {9, 3}, {12, 2}, {11, 3}, {10, 4}, {10, 5}}
	} else {
		spaces = []nc{{3, 2}, {4, 2}, {5, 2}, {5, 3}, {6, 3}, {6, 2}, {7, 3}, {6, 4}}
	}
	for si, sp := range spaces {
		if !r.mine(si) && !(sp.n == 10 && sp.c == 5) {
			continue
		}
		base := c06Base(sp.n, sp.c, []int{PFResults, PFAnySlice, PFIntSlice, PFTokSlice}[si%4])
		if sp.n == 10 && sp.c == 5 {
			// 375 000 schedules: split across shards by the first release choices
			c06Sharded(r, base)
			continue
		}
		cnt, complete := forEachSchedule(t, base, 0, nil, func(sc BatchSc, x *batchExec, br batchRun, fail string) bool {
			v := judgeC06(&sc, x, br, fail)
			if r.record("enum-schedules", sc, v) {
				r.finish()
				t.Fatalf("VIOLATION C06: %s", v.Violation)
			}
			return true
		})
		if complete {
			r.exhaustive(fmt.Sprintf("all %d completion orders of n=%d items on c=%d workers (every exec gated)", cnt, sp.n, sp.c))
		}
	}
	if !r.thorough() && r.mine(0) {
		// n=8,c=4 sampled in quick
		base := c06Base(8, 4, PFResults)
		cnt, _ := forEachSchedule(t, base, 1500, nil, func(sc BatchSc, x *batchExec, br batchRun, fail string) bool {
			v := judgeC06(&sc, x, br, fail)
			if r.record("enum-schedules-8x4-prefix", sc, v) {
				r.finish()
				t.Fatalf("VIOLATION C06: %s", v.Violation)
			}
			return true
		})
		r.note("n=8,c=4: first %d schedules in DFS order (sampled, not exhaustive)", cnt)
	}
	// batches beyond 64 items (word-size boundaries), stop mode with a late failure
	for i, n := range []int{63, 64, 65, 70, 129} {
		if !r.mine(i) {
			continue
		}
		for _, c := range []int{0, 1, 3} {
			b := c06Base(n, c, PFResults)
			b.Mode = 2
			for j := range b.Items {
				b.Items[j].Exec[0].Err = 0
			}
			b.Items[n-2].Exec[0].Err = 3
			b.Sched = []int{2, 0, 1}
			evalCase(r, "large-batches", b, checkC06)
			b.Mode = 1
			evalCase(r, "large-batches", b, checkC06)
		}
	}
	g := batchGen{MinN: 0, MaxN: 96, MaxC: 16, Modes: []int{0, 1, 1, 2}, MaxBudget: 2, PFail: 250, PResErr: 80, PPreErr: 80, Fb: true, Gated: 1, PPrepErr: 20, PPostErr: 30, MaxSched: 80}
	rapidPart(r, "rand-gated", r.pick(2500, 40000), g.gen, checkC06)
	g2 := g
	g2.Gated = 0
	g2.Waits = true
	rapidPart(r, "rand-ungated", r.pick(1500, 25000), g2.gen, checkC06)
	// the same guarantees while a cancellation strikes (scenarios of C11's generator)
	rapidPart(r, "rand-cancelled", r.pick(1500, 25000), genC11, checkC06)
	rapidPart(r, "nil-and-equal-payloads", r.pick(600, 15000), genC07Dup, checkC06Dup)
	// the same node object run twice, untouched, with two different item lists
	g3 := batchGen{MinN: 0, MaxN: 24, MaxC: 6, Modes: []int{0, 1, 1}, MaxBudget: 2, PFail: 250, PResErr: 60, Fb: true, Gated: 1, MaxSched: 40, PrepForms: []int{PFResults}}
	rapidPart(r, "rand-rerun", r.pick(1500, 25000), func(rt *rapid.T) BatchSc {
		b := g3.gen(rt)
		b.PrepErr, b.PostErr = 0, 0
		s := g3.gen(rt)
		b.Second = &s
		return b
	}, checkC06Again)
}

// c06Sharded enumerates the n=10,c=5 space: the first two release choices select the shard.
func c06Sharded(r *Run, base BatchSc) {
	total := 0
	all := true
	k := 0
	for a := 0; a < 5; a++ {
		for b := 0; b < 5; b++ {
			if !r.mine(k) {
				k++
				continue
			}
			k++
			// enumerate all schedules with prefix [a,b]: DFS below a fixed prefix
			sched := []int{a, b}
			for {
				sc := base
				sc.Sched = append([]int(nil), sched...)
				x, br, fail := runBatchCase(r.t, &sc, nil)
				total++
				v := judgeC06(&sc, x, br, fail)
				if r.record("enum-schedules", sc, v) {
					r.finish()
					r.t.Fatalf("VIOLATION C06: %s", v.Violation)
				}
				oc := x.optCounts
				full := make([]int, len(oc))
				copy(full, sched)
				i := len(oc) - 1
				for i >= 2 && full[i]%oc[i]+1 >= oc[i] {
					i--
				}
				if i < 2 {
					break
				}
				full[i] = full[i]%oc[i] + 1
				sched = full[:i+1]
			}
		}
	}
	if all {
		r.exhaustive(fmt.Sprintf("n=10,c=5: this shard's share (%d schedules) of all 375000 completion orders, split by the first two release choices", total))
	}
}

func init() {
	registerReplaySub("C06", "nil-and-equal-payloads", checkC06Dup)
	registerReplay("C06", checkC06)
	registerReplaySub("C06", "rand-rerun", checkC06Again)
}

var _ flyt.Action
