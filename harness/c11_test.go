package harness

import (
	"errors"
	"fmt"
	"testing"

	"pgregory.net/rapid"
)

// C11 — cancelling a batch stops new items and never hangs or fakes success.

func judgeC11(sc *BatchSc, x *batchExec, br batchRun, fail string) Verdict {
	if fail != "" && !goroutinesRemain(fail) {
		// "deadlock: all goroutines in bubble are blocked" = the run hangs
		return bad("C11:hang", "%s", fail)
	}
	if br.Rejected {
		return ok(false, "prep-form-rejected")
	}
	if br.Panic != "" {
		return bad("C11:panic", "%s", br.Panic)
	}
	if x != nil && x.unattributed > 0 {
		return ok(false, "fallback-call-not-attributable")
	}
	cp := sc.Cancel
	n := sc.n()
	per := itemEvents(br.Events, n)
	if !x.cancelled {
		return ok(false, "cancel-point-not-reached")
	}
	// the cancelling callback
	var cancelEv *BEv
	if !cp.Before {
		for i := range br.Events {
			e := &br.Events[i]
			if e.Kind == "exec" && e.Item == cp.Item && e.Attempt == cp.Attempt {
				cancelEv = e
			}
		}
		if cancelEv == nil {
			return ok(false, "cancel-point-not-reached")
		}
	}
	notStarted := 0
	for i := 0; i < n; i++ {
		if len(per[i]) == 0 {
			notStarted++
		}
	}
	lateItems := 0
	for _, e := range br.Events {
		if e.Kind != "exec" {
			continue
		}
		late := false
		if cp.Before {
			late = true
		} else if sc.C <= 0 {
			late = e.Seq > cancelEv.Seq // sequential: nothing at all after the cancelling callback
		} else {
			late = e.Seq > cancelEv.Seq && e.Epoch >= x.cancelEpoch // concurrent: parked ones were started earlier
		}
		if late && e.Attempt == 0 && sc.C >= 2 && !cp.Before {
			// "at most one already-committed item per other worker when concurrent"
			lateItems++
			if lateItems <= sc.C-1 {
				continue
			}
		}
		if late {
			what := "item"
			if e.Attempt > 0 {
				what = "retry attempt"
			}
			return bad(fmt.Sprintf("C11:%s-after-cancel:c=%d", what, min(sc.C, 1)), "new %s started after cancellation: %s (cancel inside item %d attempt %d, concurrency %d; events %v)", what, e, cp.Item, cp.Attempt, sc.C, bevStrings(br.Events))
		}
	}
	if br.CtxErr == nil {
		return inconclusive("the scenario's cancellation point was not reached: context not cancelled")
	}
	if br.Err != nil && x.postCalls == 0 && !errors.Is(br.Err, br.CtxErr) {
		// neither branch of the contract: no post, and the error does not match the context's
		return bad("C11:foreign-error", "run returned %q without calling post; it does not match %v", br.Err, br.CtxErr)
	}
	if br.Err == nil || x.postCalls > 0 {
		if !sc.NoPost && x.postCalls != 1 {
			return bad("C11:post-count", "run returned nil after cancellation but post was called %d times", x.postCalls)
		}
		if x.postCalls == 1 {
			res := x.postRes[0]
			if len(res) != n {
				return bad("C11:results-len", "post received %d results for %d items", len(res), n)
			}
			for i := 0; i < n; i++ {
				if len(per[i]) == 0 && !res[i].IsError() {
					mode := "continue"
					if sc.stop() {
						mode = "stop"
					}
					return bad(fmt.Sprintf("C11:unexecuted-slot-not-error:mode=%s,c=%d", mode, min(sc.C, 1)), "after cancellation item %d was never executed but its slot is a success (%s); mode=%s concurrency=%d", i, describeResult(res[i]), mode, sc.C)
				}
				if len(per[i]) > 0 && !res[i].IsError() {
					if m := slotMatches(res[i], per[i]); m != "" {
						return bad("C11:slot", "slot %d: %s", i, m)
					}
				}
			}
		}
	}
	cls := []string{fmt.Sprintf("c=%d", sc.C)}
	if cp.Before {
		cls = append(cls, "before-run")
	} else {
		cls = append(cls, fmt.Sprintf("in-attempt-%d", min(cp.Attempt, 2)))
	}
	if sc.stop() {
		cls = append(cls, "stop")
	} else {
		cls = append(cls, "continue")
	}
	if sc.WaitMs > 0 {
		cls = append(cls, "with-wait")
	}
	if br.Err != nil {
		cls = append(cls, "returns-ctx-error")
	} else {
		cls = append(cls, "post-with-error-slots")
	}
	return ok(!cp.Before && notStarted >= 1, cls...)
}

func checkC11(t *testing.T, sc BatchSc) Verdict {
	sc.PrepErr = 0
	sc.Gated = true
	if sc.Cancel == nil {
		sc.Cancel = &CancelPoint{Before: true, Flavor: "cancel"}
	}
	x, br, fail := runBatchCase(t, &sc, nil)
	return judgeC11(&sc, x, br, fail)
}

func c11Case(n, c, mode, budget, waitMs int, failMask int, cp CancelPoint, sched []int) BatchSc {
	b := BatchSc{PrepForm: PFResults, N: n, C: c, Mode: mode, Budget: budget, WaitMs: waitMs, Gated: true, PostAct: "done", Sched: sched, Cancel: &cp, CfgBits: (n + 3*c) % 32}
	for i := 0; i < n; i++ {
		it := ItemScript{}
		for a := 0; a <= budget; a++ {
			o := Outcome{Pay: (i + a) % numPayKinds}
			// the cancelling item's attempts fail up to and including the cancelling one (so a retry would follow)
			if (i == cp.Item && a <= cp.Attempt) || (failMask&(1<<(i%8)) != 0 && a == 0) {
				o.Err = 1 + (i+a)%4
			}
			it.Exec = append(it.Exec, o)
		}
		b.Items = append(b.Items, it)
	}
	return b
}

func genC11(rt *rapid.T) BatchSc {
	n := rapid.IntRange(1, 16).Draw(rt, "n")
	c := rapid.IntRange(0, 4).Draw(rt, "c")
	mode := rapid.SampledFrom([]int{0, 1, 2}).Draw(rt, "mode")
	budget := rapid.IntRange(1, 3).Draw(rt, "budget")
	wait := rapid.SampledFrom([]int{0, 0, 3600000, 20}).Draw(rt, "wait")
	cp := CancelPoint{Flavor: rapid.SampledFrom([]string{"cancel", "cancel", "deadline"}).Draw(rt, "flavor")}
	if rapid.IntRange(0, 9).Draw(rt, "before") == 0 {
		cp.Before = true
		if rapid.Bool().Draw(rt, "dl") {
			cp.Flavor = "deadline"
		}
	} else {
		cp.Item = rapid.IntRange(0, n-1).Draw(rt, "ci")
		cp.Attempt = rapid.IntRange(0, budget-1).Draw(rt, "ca")
	}
	var sched []int
	ns := rapid.IntRange(0, 40).Draw(rt, "nsched")
	for i := 0; i < ns; i++ {
		sched = append(sched, rapid.IntRange(0, 7).Draw(rt, "s"))
	}
	b := c11Case(n, c, mode, budget, wait, rapid.IntRange(0, 255).Draw(rt, "failmask"), cp, sched)
	b.PrepForm = rapid.SampledFrom([]int{PFResults, PFAnySlice, PFStrSlice}).Draw(rt, "form")
	b.ExecAny = rapid.Bool().Draw(rt, "execany")
	b.HasFb = rapid.Bool().Draw(rt, "fb")
	if rapid.IntRange(0, 9).Draw(rt, "cancelSucceeds") == 0 && !cp.Before {
		// the cancelling attempt itself succeeds
		b.Items[cp.Item].Exec[cp.Attempt].Err = 0
	}
	return b
}

func TestC11(t *testing.T) {
	r := newRun(t, "C11")
	defer r.finish()
	maxN := r.pick(7, 16)
	k := 0
	for n := 1; n <= maxN; n++ {
		for c := 0; c <= 4; c++ {
			for _, mode := range []int{1, 2} {
				for _, wait := range []int{0, 3600000} {
					for budget := 1; budget <= r.pick(2, 3); budget++ {
						// before the run
						if r.mine(k) {
							evalCase(r, "each-point", c11Case(n, c, mode, budget, wait, 0, CancelPoint{Before: true, Flavor: []string{"cancel", "deadline"}[(n+c)%2]}, nil), checkC11)
						}
						k++
						for item := 0; item < n; item++ {
							for a := 0; a < budget; a++ {
								if !r.mine(k) {
									k++
									continue
								}
								k++
								sched := []int{(item + a) % 4, 1, 3, 2, 0, 1}
								fl := []string{"cancel", "deadline"}[(item+a+n)%2]
								evalCase(r, "each-point", c11Case(n, c, mode, budget, wait, 0b10010010, CancelPoint{Item: item, Attempt: a, Flavor: fl}, sched), checkC11)
							}
						}
					}
				}
			}
		}
	}
	r.exhaustive(fmt.Sprintf("cancellation before the run and from inside the exec of every (item, attempt) for n<=%d, c in 0..4, both modes, budgets 1..%d, wait in {0, 1h}", maxN, r.pick(2, 3)))
	rapidPart(r, "rand", r.pick(3000, 150000), genC11, checkC11)
}

func init() { registerReplay("C11", checkC11) }
