package harness

import (
	"context"
	"fmt"
	"sync"
	"testing"

	"github.com/mark3labs/flyt"
	"pgregory.net/rapid"
)

// C07 — batch processes every item exactly once, with per-item retry and fallback.

// judgeItems applies the per-item retry/fallback model (the C02 model on the item's own
// script) to the events of every item. prop is the property id used in fingerprints.
func judgeItems(prop string, sc *BatchSc, x *batchExec, br batchRun) (fp, msg string) {
	if x.unattributed > 0 {
		return "", "" // a fallback call could not be attributed to an item: nothing is asserted
	}
	n := sc.n()
	per := itemEvents(br.Events, n)
	totalWant, totalGot := 0, 0
	for i := 0; i < n; i++ {
		m := sc.modelItem(i)
		var execs, fbs []BEv
		for _, e := range per[i] {
			if e.Kind == "exec" {
				execs = append(execs, e)
			} else {
				fbs = append(fbs, e)
			}
		}
		if m.Unconstrained {
			// only the slot is asserted for such items (C06/C17): see itemModel.Unconstrained
			if x.postCalls == 1 && len(x.postRes[0]) == n && len(per[i]) > 0 {
				if msg := slotMatches(x.postRes[0][i], per[i]); msg != "" {
					return prop + ":item-slot", fmt.Sprintf("slot %d: %s", i, msg)
				}
			}
			continue
		}
		if sc.stop() && stoppedBefore(br.Events, per[i]) {
			// Stop mode: once the batch has been stopped an implementation may cut the remaining
			// retries of in-flight items (C09 only says they "can still run"); the exact budget is
			// asserted for items that were settled before the first final failure, the upper
			// bound for the others.
			if len(execs) > sc.budget() {
				return prop + ":item-attempts", fmt.Sprintf("item %d: %d exec attempts with a budget of %d", i, len(execs), sc.budget())
			}
			continue
		}
		if len(execs) == 0 && sc.item(i).PreErr {
			// an item that prep already marked as failed may be handed straight to its slot: what
			// "processing" such an item means is not in any property's quantifier
			continue
		}
		totalWant += m.Attempts
		totalGot += len(execs)
		if len(execs) == 0 {
			if sc.stop() {
				continue // skipped by stop-on-error: C09's business
			}
			return prop + ":item-skipped", fmt.Sprintf("item %d was never processed (continue mode); events %v", i, bevStrings(br.Events))
		}
		if len(execs) != m.Attempts {
			return prop + ":item-attempts", fmt.Sprintf("item %d: %d exec attempts, its own script and budget %d give exactly %d (events of the item: %v)", i, len(execs), sc.budget(), m.Attempts, bevStrings(per[i]))
		}
		for a, e := range execs {
			if e.Attempt != a {
				return prop + ":item-attempt-numbering", fmt.Sprintf("item %d: attempts out of sequence %v", i, bevStrings(per[i]))
			}
			if msg := x.itemIs(resultOf(e), i); msg != "" {
				return prop + ":item-arg", fmt.Sprintf("item %d attempt %d received a different item: %s", i, a, msg)
			}
		}
		wantFb := 0
		if m.FbRuns {
			wantFb = 1
		}
		if len(fbs) != wantFb {
			return prop + ":item-fallback-count", fmt.Sprintf("item %d: fallback invoked %d times, want %d (events %v)", i, len(fbs), wantFb, bevStrings(per[i]))
		}
		if wantFb == 1 {
			fb := fbs[0]
			last := execs[len(execs)-1]
			if errMatches(fb.InErr, last.RetErr) != "" {
				return prop + ":item-fallback-err", fmt.Sprintf("item %d: fallback received error %q, the item's last attempt returned %q", i, fb.InErr, last.RetErr)
			}
			if fb.Seq < last.Seq {
				return prop + ":item-fallback-order", fmt.Sprintf("item %d: fallback before last attempt", i)
			}
		}
		if x.postCalls == 1 && len(x.postRes[0]) == n {
			if msg := slotMatches(x.postRes[0][i], per[i]); msg != "" {
				return prop + ":item-slot", fmt.Sprintf("slot %d: %s", i, msg)
			}
		}
	}
	if totalGot != totalWant && !sc.stop() {
		return prop + ":total-attempts", fmt.Sprintf("total exec calls %d, sum of per-item model attempts %d", totalGot, totalWant)
	}
	return "", ""
}

// stoppedBefore: did some item's processing end in a final failure before this item's last
// callback returned (i.e. the batch may already have been stopped while this item was in flight)?
func stoppedBefore(all []BEv, item []BEv) bool {
	if len(item) == 0 {
		return true
	}
	lastEnd := item[len(item)-1].EndSeq
	for _, e := range all {
		if (e.Kind == "exec" || e.Kind == "fb") && e.Ended && e.RetErr != nil && e.Item != item[0].Item && e.EndSeq < lastEnd {
			return true
		}
	}
	return false
}

func resultOf(e BEv) flyt.Result {
	if e.InIsErr {
		return flyt.NewErrorResult(e.InErr)
	}
	return flyt.NewResult(e.InVal)
}

// singleNodeTwin runs item i's script as a single function-style node through the workflow
// engine (real flyt.Run) and returns (exec attempts, fallback calls, succeeded).
func singleNodeTwin(sc *BatchSc, i int) (int, int, bool) {
	it := sc.item(i)
	style := 0
	if sc.HasFb {
		style |= SFallback
	}
	if sc.ExecAny {
		style |= SExecAny
	}
	vs := VisitScript{Action: "x", Fb: it.Fb}
	for _, o := range it.Exec {
		if o.Err == 6 {
			o.Err = 0
		}
		vs.Exec = append(vs.Exec, o)
	}
	w := WF{Nodes: []NodeSpec{{Leaf: &LeafSpec{Kind: KFunc, Style: style, N: sc.budget(), Visits: []VisitScript{vs}}}}, Fuel: 2}
	x := newWfExec(&w)
	rr := x.run(context.Background())
	ex, fb := 0, 0
	for _, e := range x.snapshot() {
		switch e.Phase {
		case "exec":
			ex++
		case "fb":
			fb++
		}
	}
	return ex, fb, rr.Err == nil
}

func judgeC07(sc *BatchSc, x *batchExec, br batchRun, fail string) Verdict {
	if fail != "" && !goroutinesRemain(fail) {
		return bad("C07:bubble", "%s", fail)
	}
	if br.Rejected {
		return ok(false, "prep-form-rejected")
	}
	if br.Panic != "" {
		return bad("C07:panic", "run panicked: %s", br.Panic)
	}
	if sc.LiveSlackMs > 0 && br.CtxErr != nil {
		// this run took longer than the reference run (start order and waits need not be
		// reproducible): the deadline was not "beyond the end", nothing to assert
		return ok(false, "live-deadline-expired")
	}
	if fp, msg := judgeItems("C07", sc, x, br); msg != "" {
		return bad(fp, "%s", msg)
	}
	if x.unattributed > 0 {
		return ok(false, "fallback-call-not-attributable")
	}
	n := sc.n()
	per := itemEvents(br.Events, n)
	distinct := map[string]bool{}
	failing := 0
	for i := 0; i < n; i++ {
		// differential: the same script as a single node
		hasResErr := false
		for _, o := range sc.item(i).Exec {
			if o.Err == 6 {
				hasResErr = true
			}
		}
		if !hasResErr && sc.WaitMs == 0 && !(sc.item(i).PreErr && len(per[i]) == 0) {
			ex, fb, _ := singleNodeTwin(sc, i)
			gotEx, gotFb := 0, 0
			for _, e := range per[i] {
				if e.Kind == "exec" {
					gotEx++
				} else {
					gotFb++
				}
			}
			if ex != gotEx || fb != gotFb {
				return bad("C07:differs-from-single-node", "item %d: batch made %d attempts/%d fallback calls, the same script as a single node run makes %d/%d", i, gotEx, gotFb, ex, fb)
			}
		}
		distinct[fmt.Sprint(sc.item(i).Exec, sc.item(i).Fb)] = true
		m := sc.modelItem(i)
		if !m.OK {
			failing++
		}
	}
	cls := []string{}
	if sc.C == 0 {
		cls = append(cls, "sequential")
	} else {
		cls = append(cls, "concurrent")
	}
	if failing > 0 {
		cls = append(cls, "has-failing-item")
	}
	if sc.HasFb {
		cls = append(cls, "with-fallback")
	}
	if sc.budget() > 1 {
		cls = append(cls, "budget>1")
	}
	if sc.LiveSlackMs > 0 {
		cls = append(cls, "live-deadline")
	}
	return ok(len(distinct) >= 2 && failing >= 1 && sc.C >= 2, cls...)
}

func checkC07(t *testing.T, sc BatchSc) Verdict {
	sc.Mode = modeContinue(sc.Mode)
	sc.PrepErr = 0
	if sc.Second != nil {
		// second run of the same node object after a configuration change
		sec := *sc.Second
		sec.Mode = modeContinue(sec.Mode)
		sc.Second = &sec
		x, eff, br, fail := runBatchTwice(t, &sc)
		v := judgeC07(eff, x, br, fail)
		if v.Violation != "" {
			v.Violation = "second run of the same batch node after reconfiguration: " + v.Violation
			v.Fingerprint += ":rerun"
		}
		v.Classes = append(v.Classes, "reconfigured-rerun")
		return v
	}
	x, br, fail := runBatchCase(t, &sc, nil)
	return judgeC07(&sc, x, br, fail)
}

// enumC07: all assignments of per-item scripts for n<=3 items, budget<=2.
// Script alphabet per item: exec outcome per attempt in {ok, fail} for budget+1 attempts, fallback {ok, err}.
func enumC07(maxN int, visit func(BatchSc)) int {
	count := 0
	for n := 1; n <= maxN; n++ {
		for budget := 1; budget <= 2; budget++ {
			perItem := (1 << (budget + 1)) * 2
			total := 1
			for i := 0; i < n; i++ {
				total *= perItem
			}
			for code := 0; code < total; code++ {
				for _, c := range []int{0, 1, 2, 3} {
					for _, hasFb := range []bool{false, true} {
						b := BatchSc{PrepForm: PFResults, N: n, C: c, Budget: budget, HasFb: hasFb, Gated: true, PostAct: "done", CfgBits: code % 32, ExecAny: code%2 == 1}
						cc := code
						skip := false
						for i := 0; i < n; i++ {
							v := cc % perItem
							cc /= perItem
							fbErr := v & 1
							mask := v >> 1
							if !hasFb && fbErr == 1 {
								skip = true // fallback script irrelevant without fallback: keep one representative
							}
							it := ItemScript{Fb: Outcome{Err: fbErr * 2, Pay: i}}
							for a := 0; a <= budget; a++ {
								o := Outcome{Pay: (i + a) % numPayKinds}
								if mask&(1<<a) != 0 {
									o.Err = 1 + (i+a)%4
								}
								it.Exec = append(it.Exec, o)
							}
							b.Items = append(b.Items, it)
						}
						if skip {
							continue
						}
						// two schedules: index order and reverse-ish
						for _, sched := range [][]int{nil, {3, 2, 1, 3, 2, 1, 1, 1, 1}} {
							b2 := b
							b2.Sched = sched
							visit(b2)
							count++
						}
					}
				}
			}
		}
	}
	return count
}

func TestC07(t *testing.T) {
	r := newRun(t, "C07")
	defer r.finish()
	i := 0
	n := enumC07(r.pick(2, 3), func(b BatchSc) {
		if r.mine(i) {
			evalCase(r, "enum-scripts", b, checkC07)
		}
		i++
	})
	r.exhaustive(fmt.Sprintf("every assignment of per-item scripts (exec ok/fail per attempt for budget+1 attempts, fallback ok/err) for n<=%d items, budget<=2, c in 0..3, with/without fallback, two release orders: %d cases", r.pick(2, 3), n))
	g := batchGen{MinN: 1, MaxN: 32, MaxC: 8, Modes: []int{0, 1}, MaxBudget: 4, PFail: 450, PResErr: 40, PPreErr: 40, Fb: true, Gated: 1, MaxSched: 120, Waits: true, LiveDeadline: true}
	rapidPart(r, "rand-gated", r.pick(2000, 30000), g.gen, checkC07)
	g2 := g
	g2.Gated = 0
	g2.Waits = true
	rapidPart(r, "rand-ungated", r.pick(1000, 15000), g2.gen, checkC07)
	rapidPart(r, "equal-payloads", r.pick(800, 20000), genC07Dup, checkC07Dup)
}

func init() {
	registerReplay("C07", checkC07)
	registerReplaySub("C07", "equal-payloads", checkC07Dup)
}

// ---- items with EQUAL payloads are still separate items (each executed once, each its own slot)

type C07Dup struct {
	Vals []int `json:"vals"` // item i carries payload kind(Vals[i]); equal numbers = equal payloads
	C    int   `json:"c"`
	Kind int   `json:"kind"` // 0 int, 1 string, 2 bool, 3 float64, 4 nil
}

func (c *C07Dup) payload(i int) any {
	v := c.Vals[i]
	switch c.Kind {
	case 1:
		return fmt.Sprintf("s%d", v)
	case 2:
		return v%2 == 0
	case 3:
		return float64(v) / 2
	case 4:
		return nil
	}
	return v
}

func checkC07Dup(t *testing.T, c C07Dup) Verdict { return dupCore(t, c, "C07") }

// dupCore runs the equal-payloads scenario; each property asserts only its own clauses (C07: every
// item executed exactly once; C06: post once, lists of length n in prep's order, slot i an outcome
// of its own).
func dupCore(t *testing.T, c C07Dup, prop string) Verdict {
	n := len(c.Vals)
	var mu sync.Mutex
	calls := 0
	var postItems, postRes []flyt.Result
	postCalls := 0
	var runErr error
	fail := Bubble(t, func() {
		b := flyt.NewBatchNode().WithBatchConcurrency(c.C)
		b = b.WithPrepFunc(func(ctx context.Context, s *flyt.SharedStore) ([]flyt.Result, error) {
			items := make([]flyt.Result, n)
			for i := range items {
				items[i] = flyt.NewResult(c.payload(i))
			}
			return items, nil
		})
		b = b.WithExecFunc(func(ctx context.Context, item flyt.Result) (flyt.Result, error) {
			mu.Lock()
			calls++
			k := calls
			mu.Unlock()
			return flyt.NewResult(fmt.Sprintf("call#%d(%v)", k, item.Value())), nil // every call yields a distinct value
		})
		b = b.WithPostFunc(func(ctx context.Context, s *flyt.SharedStore, items, results []flyt.Result) (flyt.Action, error) {
			mu.Lock()
			postCalls++
			postItems, postRes = append([]flyt.Result(nil), items...), append([]flyt.Result(nil), results...)
			mu.Unlock()
			return "done", nil
		})
		_, runErr = flyt.Run(context.Background(), b, flyt.NewSharedStore())
	})
	if fail != "" && !goroutinesRemain(fail) {
		return bad("C07:bubble", "%s", fail)
	}
	if runErr != nil || postCalls != 1 {
		if prop == "C07" {
			return ok(false, "run-not-clean") // post count and run error are C06's / C04's clauses
		}
		return bad("C07:dup-run", "batch of %d items with equal payloads: run error %v, post called %d times", n, runErr, postCalls)
	}
	if calls != n && prop == "C07" {
		return bad("C07:dup-items-merged", "%d items (payloads %v, kind %d, concurrency %d): exec was called %d times - items with equal payloads are still separate items", n, c.Vals, c.Kind, c.C, calls)
	}
	if len(postItems) != n || len(postRes) != n {
		return bad("C07:dup-len", "post received %d items / %d results for %d items", len(postItems), len(postRes), n)
	}
	seen := map[any]int{}
	for i, r := range postRes {
		if r.IsError() {
			return bad("C07:dup-slot", "slot %d is an error although every execution succeeded: %v", i, r.Error())
		}
		if j, dup := seen[r.Value()]; dup {
			return bad("C07:dup-outcome-shared", "slots %d and %d hold the same execution's outcome %v (payloads %v)", j, i, r.Value(), c.Vals)
		}
		seen[r.Value()] = i
		if !deepEq(postItems[i].Value(), c.payload(i)) {
			return bad("C07:dup-items", "post item %d is %#v, prep produced %#v", i, postItems[i].Value(), c.payload(i))
		}
	}
	dups := n - len(map[int]bool(func() map[int]bool {
		m := map[int]bool{}
		for _, v := range c.Vals {
			m[v] = true
		}
		return m
	}()))
	return ok(dups > 0 && n >= 2, fmt.Sprintf("equal-payloads-kind%d", c.Kind))
}

func genC07Dup(rt *rapid.T) C07Dup {
	c := C07Dup{C: rapid.IntRange(0, 4).Draw(rt, "c"), Kind: rapid.IntRange(0, 4).Draw(rt, "kind")}
	n := rapid.IntRange(0, 12).Draw(rt, "n")
	for i := 0; i < n; i++ {
		c.Vals = append(c.Vals, rapid.IntRange(0, 3).Draw(rt, "v"))
	}
	return c
}
