package harness

import (
	"fmt"
	"reflect"
	"sort"
	"testing"

	"github.com/mark3labs/flyt"
	"pgregory.net/rapid"
)

// C14 — the shared store behaves as a map and hands out isolated snapshots.

type C14Sc struct {
	Ops []StoreOp `json:"ops"`
}

type mapSnap struct {
	m      map[string]any // the map GetAll returned (mutated by the harness at will)
	expect map[string]any // what it must still contain
}

type keySnap struct {
	s      []string
	expect []string
}

// checkC14: a store operation that panics on a sequence a plain map takes in its stride is a
// disagreement with the map like any other.
func checkC14(t *testing.T, sc C14Sc) Verdict {
	var v Verdict
	if p, val := recoverCall(func() { v = checkC14Body(t, sc) }); p {
		return bad("C14:panic", "a store operation panicked where a plain map would not: %v\nops: %v", val, sc.Ops)
	}
	return v
}

func checkC14Body(t *testing.T, sc C14Sc) Verdict {
	pal := storePalette()
	val := func(i int) any { return pal[((i%len(pal))+len(pal))%len(pal)] }
	s := flyt.NewSharedStore()
	model := map[string]any{}
	var snaps []*mapSnap
	var ksnaps []*keySnap
	sawClearOrMerge, writeAfter, snapMut := false, false, false
	classes := map[string]bool{}
	for i, op := range sc.Ops {
		classes[op.Op] = true
		switch op.Op {
		case "set":
			s.Set(op.Key, val(op.Val))
			model[op.Key] = val(op.Val)
			if sawClearOrMerge {
				writeAfter = true
			}
		case "delete":
			s.Delete(op.Key)
			delete(model, op.Key)
			if sawClearOrMerge {
				writeAfter = true
			}
		case "clear":
			s.Clear()
			model = map[string]any{}
			sawClearOrMerge = true
		case "merge":
			sawClearOrMerge = true
			if op.Nil {
				s.Merge(nil)
				break
			}
			in := map[string]any{}
			for j, k := range op.Keys {
				in[k] = val(op.Vals[j%len(op.Vals)])
			}
			before := copyMap(in)
			s.Merge(in)
			for k, v := range in {
				model[k] = v
			}
			if m := mapsSame(in, before); m != "" {
				return bad("C14:merge-mutates-arg", "step %d %s: Merge modified its argument: %s", i, op, m)
			}
			// the store must not alias the argument: mutate it afterwards
			for k := range in {
				in[k] = "mutated-after-merge"
			}
			in["extra-after-merge"] = 1
		case "mergesnap":
			// Merge an alias of a previously returned GetAll map, then keep mutating that map
			if len(snaps) == 0 {
				break
			}
			sawClearOrMerge = true
			sn := snaps[op.Snap%len(snaps)]
			s.Merge(sn.m)
			for k, v := range sn.m {
				model[k] = v
			}
		case "getall":
			m := s.GetAll()
			if m == nil {
				m = map[string]any{} // a nil map is an acceptable rendering of "no entries"
			}
			snaps = append(snaps, &mapSnap{m: m, expect: copyMap(m)})
		case "keys":
			k := s.Keys()
			ksnaps = append(ksnaps, &keySnap{s: k, expect: append([]string(nil), k...)})
		case "mutsnap":
			if len(snaps) == 0 {
				break
			}
			snapMut = true
			sn := snaps[op.Snap%len(snaps)]
			if op.Nil {
				delete(sn.m, op.Key)
				delete(sn.expect, op.Key)
			} else {
				sn.m[op.Key] = val(op.Val)
				sn.expect[op.Key] = val(op.Val)
			}
		case "mutkeys":
			if len(ksnaps) == 0 {
				break
			}
			snapMut = true
			ks := ksnaps[op.Snap%len(ksnaps)]
			if op.Nil {
				sort.Strings(ks.s)
				sort.Strings(ks.expect)
			} else if len(ks.s) > 0 {
				j := op.Val % len(ks.s)
				if j < 0 {
					j = -j
				}
				ks.s[j] = "overwritten"
				ks.expect[j] = "overwritten"
				ks.s = append(ks.s, "appended")
				ks.expect = append(ks.expect, "appended")
			}
		case "typed":
			// typed getters are reads: they must not change the store (checked right below)
			if m := guard("typed getters", func() {
				s.GetString(op.Key)
				s.GetInt(op.Key)
				s.GetFloat64(op.Key)
				s.GetBool(op.Key)
				s.GetSlice(op.Key)
				s.GetSliceOr(op.Key, []any{1})
				s.GetMap(op.Key)
				var dst any
				_ = s.Bind(op.Key, &dst)
			}); m != "" {
				_ = m // a panicking typed getter is C15's finding, not C14's
			}
		case "mutold":
			// Mutate, in place, a palette object that the model does not hold at the moment (it was
			// overwritten, deleted or never stored). No legitimate store - aliasing or copying -
			// can be affected: whatever it holds under any key equals what the model holds.
			o := val(op.Val)
			held := false
			for _, v := range model {
				if sameValue(v, o) && reflect.ValueOf(o).Kind() != reflect.Invalid {
					switch reflect.ValueOf(o).Kind() {
					case reflect.Map, reflect.Slice, reflect.Ptr:
						held = true
					}
				}
			}
			if held {
				break
			}
			switch x := o.(type) {
			case map[string]any:
				if _, nested := x["x"].(map[string]any); !nested {
					x["x"] = 1000 + i
					classes["mutold-applied"] = true
				}
			case []any:
				if len(x) > 0 {
					x[0] = 1000 + i
					classes["mutold-applied"] = true
				}
			case []int:
				if len(x) > 0 {
					x[0] = 1000 + i
					classes["mutold-applied"] = true
				}
			}
		case "get", "has", "len":
			// pure reads: covered by the full agreement check below
		}
		if m := storeAgrees(s, model, storeKeys); m != "" {
			return bad("C14:diverges:"+op.Op, "after step %d (%s) the store disagrees with a plain map: %s\nops: %v", i, op, m, sc.Ops[:i+1])
		}
		for si, sn := range snaps {
			if m := mapsSame(sn.m, sn.expect); m != "" {
				return bad("C14:snapshot-changed", "after step %d (%s) GetAll snapshot #%d changed without the harness touching it: %s", i, op, si, m)
			}
		}
		for si, ks := range ksnaps {
			if !(len(ks.s) == 0 && len(ks.expect) == 0) && !reflect.DeepEqual(ks.s, ks.expect) {
				return bad("C14:keys-snapshot-changed", "after step %d (%s) Keys snapshot #%d changed: %q vs %q", i, op, si, ks.s, ks.expect)
			}
		}
	}
	var cl []string
	for c := range classes {
		cl = append(cl, c)
	}
	sortStrings(cl)
	return ok(sawClearOrMerge && writeAfter && snapMut, fmt.Sprintf("len<=%d", (len(sc.Ops)/50+1)*50))
}

func genC14(rt *rapid.T) C14Sc {
	n := rapid.IntRange(1, 200).Draw(rt, "n")
	ops := []string{"set", "set", "set", "delete", "clear", "merge", "merge", "mergesnap", "getall", "keys", "mutsnap", "mutsnap", "mutkeys", "get", "typed", "mutold"}
	var sc C14Sc
	key := func(l string) string { return storeKeys[uniform(rt, len(storeKeys), l)] }
	for i := 0; i < n; i++ {
		op := StoreOp{Op: ops[uniform(rt, len(ops), "op")]}
		switch op.Op {
		case "set", "delete", "get", "typed", "mutold":
			op.Key = key("key")
			op.Val = rapid.IntRange(0, 27).Draw(rt, "val")
		case "merge":
			if uniform(rt, 6, "nilmerge") == 0 {
				op.Nil = true
				break
			}
			nk := rapid.IntRange(0, 4).Draw(rt, "nk")
			for j := 0; j < nk; j++ {
				op.Keys = append(op.Keys, key("mkey"))
			}
			op.Vals = []int{rapid.IntRange(0, 27).Draw(rt, "mv"), rapid.IntRange(0, 27).Draw(rt, "mv2")}
		case "mergesnap", "mutsnap", "mutkeys":
			op.Snap = rapid.IntRange(0, 7).Draw(rt, "snap")
			op.Key = key("skey")
			op.Val = rapid.IntRange(0, 27).Draw(rt, "sval")
			op.Nil = rapid.Bool().Draw(rt, "del")
		}
		sc.Ops = append(sc.Ops, op)
	}
	return sc
}

func TestC14(t *testing.T) {
	r := newRun(t, "C14")
	defer r.finish()
	rapidPart(r, "state-machine", r.pick(3000, 60000), genC14, checkC14)
}

func init() { registerReplay("C14", checkC14) }

// FuzzC14: coverage-guided search over operation sequences (thorough tier).
func FuzzC14(f *testing.F) {
	f.Add([]byte{0})
	f.Add([]byte("set-merge-clear-getall-mutate"))
	f.Fuzz(rapid.MakeFuzz(func(rt *rapid.T) {
		sc := genC14(rt)
		if v := checkC14(nil, sc); v.Violation != "" {
			writeFuzzReplay("C14", sc, v)
			rt.Fatalf("VIOLATION C14: %s", v.Violation)
		}
	}))
}
