package harness

import (
	"encoding/json"
	"fmt"
	"os"
	"strings"
	"testing"
)

// TestReplay re-runs the scenario files named in VERIF_REPLAY (':'-separated) through the
// executor and oracle of their property. Prints one REPLAY line per file.
func TestReplay(t *testing.T) {
	paths := os.Getenv("VERIF_REPLAY")
	if paths == "" {
		t.Skip("VERIF_REPLAY not set")
	}
	known := loadFindings(os.Getenv("VERIF_FINDINGS"))
	for _, p := range strings.Split(paths, ":") {
		b, err := os.ReadFile(p)
		if err != nil {
			fmt.Printf("REPLAY-ERROR file=%s %v\n", p, err)
			t.Fail()
			continue
		}
		var rf replayFile
		if err := json.Unmarshal(b, &rf); err != nil {
			fmt.Printf("REPLAY-ERROR file=%s %v\n", p, err)
			t.Fail()
			continue
		}
		fn := replayers[rf.Property+"/"+rf.Sub]
		if fn == nil {
			fn = replayers[rf.Property]
		}
		if fn == nil {
			fmt.Printf("REPLAY-ERROR file=%s no replayer for %s/%s\n", p, rf.Property, rf.Sub)
			t.Fail()
			continue
		}
		v := fn(t, rf.Sub, rf.Scenario)
		if v.Violation == "" {
			fmt.Printf("REPLAY-OK property=%s file=%s\n", rf.Property, p)
			continue
		}
		if strings.Contains(v.Violation, "HARNESS-INCONCLUSIVE") || strings.Contains(v.Violation, "WATCHDOG-INCONCLUSIVE") {
			fmt.Printf("REPLAY-INCONCLUSIVE property=%s file=%s %s\n", rf.Property, p, strings.SplitN(v.Violation, "\n", 2)[0])
			continue
		}
		isKnown := false
		for _, f := range known {
			if f.Status == "known" && f.Property == rf.Property && f.Fingerprint == v.Fingerprint {
				isKnown = true
				fmt.Printf("REPLAY-KNOWN property=%s file=%s fingerprint=%s what=%s\n", rf.Property, p, v.Fingerprint, f.What)
			}
		}
		if !isKnown {
			fmt.Printf("REPLAY-VIOLATION property=%s file=%s fingerprint=%s\n%s\n", rf.Property, p, v.Fingerprint, v.Violation)
		}
	}
}
