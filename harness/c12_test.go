package harness

import (
	"testing"
)

// C12 — worker pool: tasks run exactly once, Wait is a barrier, Close leaks nothing.

func TestC12(t *testing.T) {
	r := newRun(t, "C12")
	defer r.finish()
	chk := checkPool("C12")
	// fixed shapes: every size -1..16, tasks well beyond the 2*workers queue, 1 and 3 submitters, 2 rounds
	k := 0
	for size := -1; size <= 16; size++ {
		for _, subs := range [][]int{{0}, {1}, {5*max(size, 1) + 3}, {2*max(size, 1) + 1, 7, 3 * max(size, 1)}} {
			for _, gated := range []bool{true, false} {
				if !r.mine(k) {
					k++
					continue
				}
				k++
				sc := PoolSc{Size: size, Rounds: []PoolRound{{Submitters: subs}, {Submitters: []int{3, 2}}}, Gated: gated,
					Sched: []int{5, 1, 4, 2, 8, 3, 0, 7, 6, 2, 2, 9, 1}, DurMs: []int{3, 0, 7, 1, 12}}
				evalCase(r, "each-size", sc, chk)
				if gated && size >= 2 {
					// fewer early tasks than workers, late tasks submitted during Wait
					sc2 := PoolSc{Size: size, Rounds: []PoolRound{{Submitters: []int{size - 1}}, {Submitters: []int{1}}}, Gated: true, Late: size + 1, Sched: []int{1, 0, 2}}
					evalCase(r, "submit-during-wait", sc2, chk)
				}
			}
		}
	}
	r.exhaustive("every pool size -1..16 x {0, 1, 5w+3 tasks from one submitter, three submitters} x gated/timed, two Wait rounds each")
	rapidPart(r, "rand", r.pick(2500, 40000), genPool(500), chk)
}

func init() { registerReplay("C12", checkPool("C12")) }
