package harness

import (
	"fmt"
	"runtime"
	"sync"
	"sync/atomic"
	"testing"

	"github.com/mark3labs/flyt"
	"pgregory.net/rapid"
)

// C12 — worker pool: tasks run exactly once, Wait is a barrier, Close leaks nothing.

// C12Stress: real scheduler, no bubble. Lanes of reused pools run many tiny Submit/Wait rounds;
// after every Wait all tasks submitted before it must have finished (flags set by the tasks
// themselves) and every task must have run exactly once. Windows of a few nanoseconds between
// "last task done" and "next Submit" are only reachable this way.
type C12Stress struct {
	Lanes   int `json:"lanes"`
	Size    int `json:"size"`
	Rounds  int `json:"rounds"`
	PerRnd  int `json:"per_round"`
	SpinMax int `json:"spin_max"`
}

func checkC12Stress(t *testing.T, c C12Stress) Verdict {
	var failMu sync.Mutex
	fail := ""
	var wg sync.WaitGroup
	for lane := 0; lane < c.Lanes; lane++ {
		wg.Add(1)
		go func(lane int) {
			defer wg.Done()
			pool := flyt.NewWorkerPool(c.Size)
			defer pool.Close()
			for r := 0; r < c.Rounds; r++ {
				failMu.Lock()
				stop := fail != ""
				failMu.Unlock()
				if stop {
					return
				}
				n := 1 + (r+lane)%c.PerRnd
				counts := make([]int32, n)
				for i := 0; i < n; i++ {
					i := i
					spin := (r*7 + i*13 + lane) % (c.SpinMax + 1)
					pool.Submit(func() {
						x := 0
						for k := 0; k < spin*50; k++ {
							x += k
						}
						_ = x
						if i == n-1 {
							runtime.Gosched() // the last task of the round lingers a little
						}
						atomic.AddInt32(&counts[i], 1)
					})
				}
				pool.Wait()
				for i := range counts {
					if got := atomic.LoadInt32(&counts[i]); got != 1 {
						failMu.Lock()
						if fail == "" {
							fail = fmt.Sprintf("lane %d round %d: after Wait task %d of %d had run %d times (pool size %d)", lane, r, i, n, got, c.Size)
						}
						failMu.Unlock()
						return
					}
				}
			}
		}(lane)
	}
	wg.Wait()
	if fail != "" {
		return bad("C12:stress-wait-barrier", "%s", fail)
	}
	return Verdict{NonTrivial: true, Classes: []string{"real-scheduler-stress"}}
}

func genC12Stress(rt *rapid.T) C12Stress {
	return C12Stress{Lanes: rapid.IntRange(2, 8).Draw(rt, "lanes"), Size: rapid.IntRange(1, 4).Draw(rt, "size"), Rounds: rapid.IntRange(200, 1500).Draw(rt, "rounds"),
		PerRnd: rapid.IntRange(1, 4).Draw(rt, "per"), SpinMax: rapid.IntRange(0, 6).Draw(rt, "spin")}
}

func TestC12(t *testing.T) {
	r := newRun(t, "C12")
	defer r.finish()
	chk := checkPool("C12")
	// fixed shapes: every size -1..16, tasks well beyond the 2*workers queue, 1 and 3 submitters, 2 rounds
	k := 0
	for size := -1; size <= 16; size++ {
		for _, subs := range [][]int{{0}, {1}, {5*max(size, 1) + 3}, {2*max(size, 1) + 1, 7, 3 * max(size, 1)}} {
			for _, gated := range []bool{true, false} {
				if !r.mine(k) {
					k++
					continue
				}
				k++
				sc := PoolSc{Size: size, Rounds: []PoolRound{{Submitters: subs}, {Submitters: []int{3, 2}}}, Gated: gated,
					Sched: []int{5, 1, 4, 2, 8, 3, 0, 7, 6, 2, 2, 9, 1}, DurMs: []int{3, 0, 7, 1, 12}}
				evalCase(r, "each-size", sc, chk)
				if gated && size >= 2 {
					// fewer early tasks than workers, late tasks submitted during Wait
					sc2 := PoolSc{Size: size, Rounds: []PoolRound{{Submitters: []int{size - 1}}, {Submitters: []int{1}}}, Gated: true, Late: size + 1, Sched: []int{1, 0, 2}}
					evalCase(r, "submit-during-wait", sc2, chk)
				}
			}
		}
	}
	r.exhaustive("every pool size -1..16 x {0, 1, 5w+3 tasks from one submitter, three submitters} x gated/timed, two Wait rounds each")
	rapidPart(r, "rand", r.pick(2500, 40000), genPool(500), chk)
	rapidPart(r, "real-scheduler-stress", r.pick(12, 150), genC12Stress, checkC12Stress)
}

func init() {
	registerReplay("C12", checkPool("C12"))
	registerReplaySub("C12", "real-scheduler-stress", checkC12Stress)
}
