package harness

import (
	"context"
	"fmt"
	"strings"
	"testing"

	"github.com/mark3labs/flyt"
	"pgregory.net/rapid"
)

// C10 — a flow used as a node behaves like a node: nested == flattened.

func (w *WF) lookup(flow, member int, action string) (int, bool) {
	next, found := -1, false
	for _, c := range w.Nodes[flow].Flow.Conns {
		if c.From == member && c.Action == action {
			next, found = c.To, true
		}
	}
	return next, found
}

// descend extends a call path by node and follows start nodes down to a leaf.
func (w *WF) descend(prefix []int, node int) []int {
	st := append(append([]int(nil), prefix...), node)
	for w.Nodes[node].Flow != nil {
		node = w.Nodes[node].Flow.Start
		st = append(st, node)
	}
	return st
}

// succ resolves the successor of a leaf occurrence (call path) on a (normalised) action:
// inner table -> exit -> parent table -> ... -> entry into the target's start leaf.
func (w *WF) succ(state []int, action string) ([]int, bool) {
	for i := len(state) - 2; i >= 0; i-- {
		flow, member := state[i], state[i+1]
		if to, found := w.lookup(flow, member, action); found && to >= 0 {
			return w.descend(state[:i+1], to), true
		}
	}
	return nil, false
}

func stateKey(st []int) string {
	var b strings.Builder
	for _, x := range st {
		fmt.Fprintf(&b, "%d.", x)
	}
	return b.String()
}

// flatten builds the equivalent single-level state machine as a scenario whose root is one
// flat flow over fresh wrapper leaves (one per reachable call path) sharing the original
// leaves' behaviours.
func flatten(w *WF) WF {
	flat := WF{Fuel: w.Fuel, Runs: w.Runs, Inject: w.Inject}
	flat.Nodes = append(flat.Nodes, w.Nodes...)
	flat.BehOf = make([]int, len(w.Nodes))
	for i := range flat.BehOf {
		flat.BehOf[i] = -1
	}
	// alphabet of normalised actions
	alpha := map[string]bool{string(flyt.DefaultAction): true, HaltAction: true}
	for _, ns := range w.Nodes {
		if ns.Leaf != nil {
			for _, v := range ns.Leaf.Visits {
				if v.Action != "" {
					alpha[v.Action] = true
				}
			}
		}
	}
	var acts []string
	for a := range alpha {
		acts = append(acts, a)
	}
	sortStrings(acts)
	index := map[string]int{}
	var order [][]int
	add := func(st []int) int {
		k := stateKey(st)
		if id, okk := index[k]; okk {
			return id
		}
		leaf := st[len(st)-1]
		id := len(flat.Nodes)
		spec := *w.Nodes[leaf].Leaf
		flat.Nodes = append(flat.Nodes, NodeSpec{Leaf: &spec})
		flat.BehOf = append(flat.BehOf, w.beh(leaf))
		index[k] = id
		order = append(order, st)
		return id
	}
	init := w.descend(nil, w.Root)
	fs := &FlowSpec{Start: add(init)}
	for i := 0; i < len(order); i++ {
		st := order[i]
		from := index[stateKey(st)]
		for _, a := range acts {
			if nx, okk := w.succ(st, a); okk {
				fs.Conns = append(fs.Conns, Conn{From: from, Action: a, To: add(nx)})
			}
		}
	}
	flat.Nodes = append(flat.Nodes, NodeSpec{Flow: fs})
	flat.BehOf = append(flat.BehOf, -1)
	flat.Root = len(flat.Nodes) - 1
	return flat
}

func c10Body(sc *WF) Verdict {
	if sc.recursive() {
		return c10Recursive(sc)
	}
	flat := flatten(sc)
	xn := newWfExec(sc)
	xf := newWfExec(&flat)
	m := newWfModel(sc)
	nontrivial := false
	classes := map[string]bool{}
	depth := sc.depth(sc.Root)
	for r := 0; r < sc.runs(); r++ {
		rn := xn.run(context.Background())
		rf := xf.run(context.Background())
		mr := m.run()
		if rn.Panic != "" || rf.Panic != "" {
			return bad("C10:panic", "panic: nested=%q flat=%q", rn.Panic, rf.Panic)
		}
		tn := xn.snapshot()[rn.Lo:rn.Hi]
		tf := xf.snapshot()[rf.Lo:rf.Hi]
		// every inner node runs on the same shared store as its parent's nodes (established
		// behaviourally by the executor: a write through one callback's store is visible through
		// the previous callback's store and vice versa; identical pointers are the trivial case)
		if xn.storeSplit != "" {
			return bad("C10:store-identity", "%s", xn.storeSplit)
		}
		sn, sf := traceStrings(tn), traceStrings(tf)
		if strings.Join(sn, " ") != strings.Join(sf, " ") {
			return bad("C10:visit-order", "run %d: nested arrangement ran %v, equivalent flat state machine ran %v", r, sn, sf)
		}
		if (rn.Err == nil) != (rf.Err == nil) {
			return bad("C10:outcome", "run %d: nested err=%v, flat err=%v", r, rn.Err, rf.Err)
		}
		if !intsEq(storePath(rn.Store), storePath(rf.Store)) {
			return bad("C10:store", "run %d: nested store path %v, flat %v", r, storePath(rn.Store), storePath(rf.Store))
		}
		// (which error value comes back is C04's clause; C10 compares outcome with the flat machine)
		// (The reference interpreter is used for classification only: it also encodes C01/C02's
		// per-node rules, and code that breaks only those behaves the same nested and flat.)
		if depth >= 2 && mr.InnerBranch > 0 {
			nontrivial = true
			classes["parent-branches-on-inner-action"] = true
		}
		if mr.InnerEnds > 0 {
			classes["inner-flow-completed"] = true
		}
		if !mr.OK && depth >= 2 {
			classes["inner-error"] = true
		}
	}
	classes[fmt.Sprintf("depth%d", depth)] = true
	var cl []string
	for c := range classes {
		cl = append(cl, c)
	}
	sortStrings(cl)
	return ok(nontrivial, append(cl, sc.batchClass()...)...)
}

// c10Recursive: a flow that (transitively) contains itself has no finite flattening (the
// equivalent machine is a pushdown automaton); the recursive reference interpreter is the
// oracle there: same callbacks, same store, same outcome, same store pointer everywhere.
func c10Recursive(sc *WF) Verdict {
	x := newWfExec(sc)
	m := newWfModel(sc)
	nontrivial := false
	for r := 0; r < sc.runs(); r++ {
		rr := x.run(context.Background())
		mr := m.run()
		if rr.Panic != "" {
			return bad("C10:panic", "recursive arrangement panicked: %s", rr.Panic)
		}
		tr := x.snapshot()[rr.Lo:rr.Hi]
		if x.storeSplit != "" {
			return bad("C10:store-identity", "%s", x.storeSplit)
		}
		if !sameShape(tr, mr.Trace) {
			return bad("C10:recursive", "run %d: a flow nested inside itself ran %v, the reference interpreter %v", r, traceStrings(tr), modelStrings(mr.Trace))
		}
		if (rr.Err == nil) != mr.OK {
			return bad("C10:recursive-outcome", "run %d: err=%v, reference ok=%v", r, rr.Err, mr.OK)
		}
		if !intsEq(storePath(rr.Store), mr.Path) {
			return bad("C10:recursive-store", "run %d: store path %v, reference %v", r, storePath(rr.Store), mr.Path)
		}
		if mr.InnerBranch > 0 {
			nontrivial = true
		}
	}
	return ok(nontrivial, "recursive")
}

func checkC10(t *testing.T, sc WF) Verdict { return c10Body(&sc) }

// genC10 constructs hierarchies in which parents branch on the final action of inner flows:
// leaves, then 1..3 levels of flows; at each level every (member, action) pair is connected
// with high probability, and members are preferably flows of the level below.
func genC10(rt *rapid.T) WF {
	acts := []string{"a", "b", "c", ""}
	norm := []string{"a", "b", "c", "default"}
	g := wfGen{Actions: acts, PErr: 8, PExecErr: 60, MaxN: 2, MaxVisits: 4}
	var w WF
	nl := rapid.IntRange(2, 4).Draw(rt, "nleaves")
	for i := 0; i < nl; i++ {
		w.Nodes = append(w.Nodes, NodeSpec{Leaf: g.leaf(rt)})
	}
	levels := rapid.IntRange(2, 4).Draw(rt, "levels")
	prev := []int{} // flows of the level below
	for lv := 0; lv < levels; lv++ {
		nf := 1
		if lv < levels-1 {
			nf = rapid.IntRange(1, 2).Draw(rt, "nf")
		}
		var cur []int
		for f := 0; f < nf; f++ {
			// members: some leaves + (preferably) flows of the level below
			var members []int
			for _, p := range prev {
				if rapid.IntRange(0, 3).Draw(rt, "usep") > 0 {
					members = append(members, p)
				}
			}
			nm := rapid.IntRange(1, 3).Draw(rt, "nm")
			for j := 0; j < nm; j++ {
				members = append(members, rapid.IntRange(0, nl-1).Draw(rt, "leafm"))
			}
			fs := &FlowSpec{Start: members[rapid.IntRange(0, len(members)-1).Draw(rt, "start")]}
			if len(prev) > 0 && rapid.Bool().Draw(rt, "startinner") {
				fs.Start = members[0]
			}
			for _, m := range members {
				for _, a := range norm {
					k := rapid.IntRange(0, 9).Draw(rt, "conn")
					switch {
					case k < 6:
						fs.Conns = append(fs.Conns, Conn{From: m, Action: a, To: members[rapid.IntRange(0, len(members)-1).Draw(rt, "to")]})
					case k == 6:
						fs.Conns = append(fs.Conns, Conn{From: m, Action: a, To: -1})
					}
				}
			}
			w.Nodes = append(w.Nodes, NodeSpec{Flow: fs})
			cur = append(cur, len(w.Nodes)-1)
		}
		prev = cur
	}
	w.Root = len(w.Nodes) - 1
	w.Fuel = rapid.IntRange(4, 24).Draw(rt, "fuel")
	w.Runs = rapid.IntRange(1, 2).Draw(rt, "runs")
	return w
}

func TestC10(t *testing.T) {
	r := newRun(t, "C10")
	defer r.finish()
	g := wfGen{MaxLeaves: 5, MaxFlows: 4, Actions: []string{"a", "b", "", "default"}, PErr: 25, PExecErr: 150, MaxN: 2, MaxVisits: 3, FuelMax: 14, MaxRuns: 2, PreferFlows: true, PBatch: 120}
	rapidPart(r, "structured", r.pick(5000, 80000), genC10, checkC10)
	rapidPart(r, "rand-nested", r.pick(3000, 50000), g.gen, checkC10)
	// denser inner flows: fewer leaves, more flows, richer action alphabet
	g2 := wfGen{MaxLeaves: 3, MaxFlows: 4, Actions: []string{"a", "b", "c", ""}, MaxN: 1, MaxVisits: 4, FuelMax: 20, PreferFlows: true}
	rapidPart(r, "rand-dense", r.pick(3000, 50000), g2.gen, checkC10)
	// Flows that contain themselves or each other are supported by the executor and the
	// reference interpreter (c10Recursive, used by replays) but are NOT generated: C10 quantifies
	// over hierarchical flows up to depth 4, a recursive arrangement has no finite flattening, and
	// an implementation that rejects recursive nesting would still satisfy the property.
}

func init() { registerReplay("C10", checkC10) }
