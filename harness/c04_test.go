package harness

import (
	"context"
	"fmt"
	"testing"

	"github.com/mark3labs/flyt"
	"pgregory.net/rapid"
)

// C04 — errors are transparent and flows are fail-stop.

// segSucceeded: did this node run (judged by the callbacks that actually happened) end
// with a successful post?
func segSucceeded(seg []Ev) bool {
	last := seg[len(seg)-1]
	if seg[0].Batch {
		// batch node: item outcomes go to the slots; the node run succeeded iff post did
		return last.Phase == "post" && last.RetErr == nil && seg[0].RetErr == nil
	}
	if last.Phase != "post" || last.RetErr != nil || len(seg) < 3 {
		return false
	}
	// ... and the exec phase itself must have succeeded (after retries and fallback): the
	// callback right before post is an exec attempt or the fallback, and it returned no error
	prev := seg[len(seg)-2]
	return (prev.Phase == "exec" || prev.Phase == "fb") && prev.RetErr == nil
}

// c04Judge applies the C04 predicate to one run's trace and result.
func c04Judge(tr []Ev, err error) (fp, msg string) {
	if len(tr) == 0 {
		if err == nil {
			return "C04:empty", "no callback ran and the run reported success"
		}
		// "a nil error if and only if every phase on its path succeeded": no phase failed - none ran
		return "C04:spurious-error", fmt.Sprintf("no user callback was invoked, yet the run returned %v", err)
	}
	segs := segments(tr)
	allOK := true
	for i, s := range segs {
		if !segSucceeded(s) {
			allOK = false
			if i != len(segs)-1 {
				return "C04:fail-stop", fmt.Sprintf("node run %v failed but later callbacks were still invoked: %v", traceStrings(s), traceStrings(tr))
			}
		}
	}
	if allOK && err != nil {
		return "C04:spurious-error", fmt.Sprintf("every phase on the path succeeded but the run returned %v (trace %v)", err, traceStrings(tr))
	}
	if !allOK && err == nil {
		return "C04:swallowed", fmt.Sprintf("a phase failed without being absorbed by retry/fallback, yet the run returned a nil error (trace %v)", traceStrings(tr))
	}
	if err == nil {
		return "", ""
	}
	// the callback whose error ended the run: the last one whose returned error matches
	k := -1
	why := ""
	for i := len(tr) - 1; i >= 0; i-- {
		if tr[i].RetErr == nil {
			continue
		}
		if m := errMatches(err, tr[i].RetErr); m == "" {
			k = i
			break
		} else if why == "" {
			why = m
		}
	}
	if k < 0 {
		return "C04:identity", fmt.Sprintf("returned error %q matches no callback's error under errors.Is/As (%s); trace %v", err, why, traceStrings(tr))
	}
	if k != len(tr)-1 {
		// callbacks after the ending one are allowed only if they handed the same error on (fallback passthrough)
		for j := k + 1; j < len(tr); j++ {
			return "C04:after-end", fmt.Sprintf("callback %s ran after %s, whose error ended the run: %v", tr[j], tr[k], traceStrings(tr))
		}
	}
	// the error must be the one that really ended the run: the last failing callback
	return "", ""
}

func c04Body(sc *WF) Verdict {
	x := newWfExec(sc)
	m := newWfModel(sc)
	nontrivial := false
	classes := map[string]bool{}
	for r := 0; r < sc.runs(); r++ {
		rr := x.run(context.Background())
		mr := m.run()
		if runaway(rr.Panic) {
			return ok(false, "scenario-did-not-terminate") // C03/C10 territory, see runaway()
		}
		if rr.Panic != "" {
			return bad("C04:panic", "run panicked: %s", rr.Panic)
		}
		tr := x.snapshot()[rr.Lo:rr.Hi]
		if fp, msg := c04Judge(tr, rr.Err); msg != "" {
			return bad(fp, "%s", msg)
		}
		// classification from the model
		depth := sc.depth(sc.Root)
		failures := 0
		for _, e := range tr {
			if e.RetErr != nil {
				failures++
			}
		}
		switch {
		case !mr.OK && depth >= 1:
			nontrivial = true
			classes[fmt.Sprintf("ends-run-depth%d", depth)] = true
			if mr.EndEv >= 0 {
				classes["ends-in-"+mr.Trace[mr.EndEv].Phase] = true
			}
		case mr.OK && failures > 0:
			nontrivial = true
			classes["absorbed"] = true
		case !mr.OK:
			classes["ends-run-depth0"] = true
		default:
			classes["no-failure"] = true
		}
	}
	var cl []string
	for c := range classes {
		cl = append(cl, c)
	}
	sortStrings(cl)
	return ok(nontrivial, append(cl, sc.batchClass()...)...)
}

func checkC04(t *testing.T, sc WF) Verdict {
	var v Verdict
	if f := Bubble(t, func() { v = c04Body(&sc) }); f != "" && !goroutinesRemain(f) {
		return bad("C04:bubble", "%s", f)
	}
	return v
}

// C04Enum is a failure-free base scenario; the check injects a single failure at every
// position of its executed path in turn (fault enumeration), in every error flavour.
type C04Enum struct {
	Base WF `json:"base"`
}

func genC04Enum(rt *rapid.T) C04Enum {
	g := wfGen{MaxLeaves: 5, MaxFlows: 4, Actions: []string{"a", "b", "", "default"}, MaxN: 3, MaxVisits: 2, FuelMax: 8, PBatch: 120}
	w := g.gen(rt)
	// fallback outcomes vary (ok / err / passthrough) so an injected exec failure is sometimes absorbed
	return C04Enum{Base: w}
}

// c04Positions lists every injection derived from the failure-free reference run.
func c04Positions(base *WF) []Injection {
	mr := newWfModel(base).run()
	var out []Injection
	for _, e := range mr.Trace {
		if e.Phase == "exec" && base.Nodes[e.Leaf].Leaf.Kind == KBatch {
			continue // a failing batch item goes to its slot; whether it also surfaces in Run's error is left open
		}
		for _, flavor := range errFlavors {
			out = append(out, Injection{Leaf: e.Leaf, Visit: e.Visit, Phase: e.Phase, Attempt: e.Attempt, Err: flavor})
		}
		if e.Phase == "exec" {
			// also: every attempt of this visit fails (reaches the fallback / exhausts the budget)
			out = append(out, Injection{Leaf: e.Leaf, Visit: e.Visit, Phase: "exec*", Attempt: -1, Err: errFlavors[(e.Leaf+e.Visit)%len(errFlavors)]})
		}
	}
	return out
}

func c04Apply(base *WF, in Injection) WF {
	w := *base
	if in.Phase == "exec*" {
		n := base.Nodes[in.Leaf].Leaf.effN()
		for a := 0; a < n; a++ {
			w.Inject = append(append([]Injection(nil), w.Inject...), Injection{Leaf: in.Leaf, Visit: in.Visit, Phase: "exec", Attempt: a, Err: in.Err})
		}
		return w
	}
	w.Inject = append(append([]Injection(nil), base.Inject...), in)
	return w
}

type C04Case struct {
	Base   WF        `json:"base"`
	Inject Injection `json:"inject"`
}

func checkC04Case(t *testing.T, c C04Case) Verdict {
	w := c04Apply(&c.Base, c.Inject)
	v := checkC04(t, w)
	v.Classes = append(v.Classes, "inject-"+c.Inject.Phase)
	return v
}

// ---- batch nodes: prep/post failures are transparent too (item failures go to slots by design)

type C04Batch struct {
	B      BatchSc `json:"b"`
	InFlow bool    `json:"in_flow"`
}

func checkC04Batch(t *testing.T, c C04Batch) Verdict {
	sc := c.B
	var v Verdict
	f := Bubble(t, func() {
		x := newBatchExec(&sc)
		x.sc.Gated = false
		store := flyt.NewSharedStore()
		var err error
		after := &markNode{}
		if c.InFlow {
			flow := flyt.NewFlow(x.node)
			flow.Connect(x.node, flyt.DefaultAction, after)
			flow.Connect(x.node, "done", after)
			err = flow.Run(context.Background(), store)
		} else {
			_, err = flyt.Run(context.Background(), x.node, store)
		}
		evs := x.snapshot()
		var prepErr, postErr error
		for _, e := range evs {
			if e.Kind == "prep" {
				prepErr = e.RetErr
			}
			if e.Kind == "post" {
				postErr = e.RetErr
			}
		}
		want := prepErr
		if want == nil {
			want = postErr
		}
		itemFailed := false
		for _, e := range evs {
			if (e.Kind == "exec" || e.Kind == "fb") && (e.RetErr != nil || e.RetResErr != nil) {
				itemFailed = true
			}
		}
		switch {
		case prepFormRejected(&sc, evs, err, "", nil):
			// the implementation does not accept this (undocumented) form of prep result
			v = ok(false, "batch", "prep-form-rejected")
		case want == nil && err != nil && itemFailed:
			// whether item failures also surface in Run's error is left open (today they only go to the slots)
			v = ok(false, "batch", "item-failures-only")
		case want == nil && err != nil:
			v = bad("C04:batch-spurious-error", "every phase of the batch run succeeded (prep, every item, post) but the run returned %v", err)
		case want != nil && err == nil:
			v = bad("C04:batch-swallowed", "batch %s failed with %q but the run returned nil", map[bool]string{true: "prep", false: "post"}[prepErr != nil], want)
		case want != nil:
			if m := errMatches(err, want); m != "" {
				v = bad("C04:batch-identity", "batch callback failed with %q, run returned %q: %s", want, err, m)
				return
			}
			if prepErr != nil && len(evs) != 1 {
				v = bad("C04:batch-fail-stop", "callbacks after the failed batch prep: %v", bevStrings(evs))
				return
			}
			if after.ran != 0 {
				v = bad("C04:batch-fail-stop", "the flow went on to the next node after the batch node failed")
				return
			}
			v = ok(true, "batch", map[bool]string{true: "in-flow", false: "direct"}[c.InFlow], map[bool]string{true: "prep-fails", false: "post-fails"}[prepErr != nil])
		default:
			v = ok(false, "batch", "no-failure")
		}
	})
	if f != "" && !goroutinesRemain(f) {
		return bad("C04:bubble", "%s", f)
	}
	return v
}

func genC04Batch(rt *rapid.T) C04Batch {
	g := batchGen{MinN: 0, MaxN: 6, MaxC: 3, Modes: []int{0, 1, 2}, MaxBudget: 2, PFail: 300, Fb: true, Gated: 0, PPrepErr: 330, PPostErr: 500}
	b := g.gen(rt)
	if b.PrepErr != 0 {
		b.PrepErr = errFlavors[uniform(rt, len(errFlavors), "pf")]
	}
	if b.PostErr != 0 {
		b.PostErr = append(append([]int(nil), errFlavors...), 12, 12, 13, 13)[uniform(rt, len(errFlavors)+4, "qf")]
	}
	return C04Batch{B: b, InFlow: rapid.Bool().Draw(rt, "inflow")}
}

func TestC04(t *testing.T) {
	r := newRun(t, "C04")
	defer r.finish()
	// fault enumeration: rapid generates the base scenario, the check enumerates all positions;
	// on failure rapid shrinks the base and the failing position is re-found by enumeration.
	positions := 0
	r.t.Run("fault-enum", func(t *testing.T) {
		setRapidChecks(r.pick(400, 15000))
		rapid.Check(t, func(rt *rapid.T) {
			base := genC04Enum(rt)
			for _, in := range c04Positions(&base.Base) {
				c := C04Case{Base: base.Base, Inject: in}
				v := checkC04Case(t, c)
				positions++
				if r.record("fault-enum", c, v) {
					rt.Fatalf("VIOLATION C04: %s", v.Violation)
				}
			}
		})
	})
	r.note("fault-enum: every (leaf visit x phase x attempt) event of each failure-free reference run injected in 4 error flavours, plus 'all attempts fail': %d injected runs in this shard", positions)
	g := wfGen{MaxLeaves: 5, MaxFlows: 4, Actions: []string{"a", "b", ""}, PErr: 60, PExecErr: 400, MaxN: 4, Waits: true, MaxVisits: 3, FuelMax: 10, MaxRuns: 2, PBatch: 120}
	rapidPart(r, "rand-multi", r.pick(3000, 120000), g.gen, checkC04)
	rapidPart(r, "batch-prep-post", r.pick(2000, 30000), genC04Batch, checkC04Batch)
}

func init() {
	registerReplay("C04", checkC04)
	registerReplaySub("C04", "fault-enum", checkC04Case)
	registerReplaySub("C04", "batch-prep-post", checkC04Batch)
}
