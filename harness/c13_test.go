package harness

import (
	"fmt"
	"hash/fnv"
	"os"
	"runtime"
	"sort"
	"strconv"
	"strings"
	"sync"
	"sync/atomic"
	"testing"
	"time"

	"github.com/anishathalye/porcupine"
	"github.com/mark3labs/flyt"
	"pgregory.net/rapid"
)

// C13 — the shared store is linearizable and data-race free.
//
// (A) random concurrent programs on 16 real cores, every recorded history checked by
//     porcupine against the map model;  (B) atomicity stress for Merge/Clear;
// (C) the same under the race detector (separate job, -race binary).

var c13Keys = []string{"k0", "k1", "k2", "k3"}

type C13Program struct {
	Threads [][]StoreOp `json:"threads"`
	Reps    int         `json:"reps"`
}

type HistOp struct {
	Client int     `json:"client"`
	Op     StoreOp `json:"op"`
	Out    string  `json:"out"`
	Call   int64   `json:"call"`
	Ret    int64   `json:"ret"`
}

// C13Case: a program, plus (for replays of a violation) the offending recorded history.
type C13Case struct {
	Program C13Program `json:"program"`
	History []HistOp   `json:"history,omitempty"`
}

// ---- sequential specification: state = canonical "k=v;" string of a map[string]int

type c13State map[string]int

func c13Canon(m c13State) string {
	ks := make([]string, 0, len(m))
	for k := range m {
		ks = append(ks, k)
	}
	sort.Strings(ks)
	var b strings.Builder
	for _, k := range ks {
		fmt.Fprintf(&b, "%s=%d;", k, m[k])
	}
	return b.String()
}

func c13Parse(s string) c13State {
	m := c13State{}
	for _, kv := range strings.Split(s, ";") {
		if kv == "" {
			continue
		}
		i := strings.IndexByte(kv, '=')
		v, _ := strconv.Atoi(kv[i+1:])
		m[kv[:i]] = v
	}
	return m
}

// c13Apply is the sequential semantics: returns the output and the new state.
func c13Apply(st string, op StoreOp) (string, string) {
	m := c13Parse(st)
	switch op.Op {
	case "set":
		m[op.Key] = op.Val
		return "", c13Canon(m)
	case "delete":
		delete(m, op.Key)
		return "", c13Canon(m)
	case "clear":
		return "", ""
	case "merge":
		if op.Nil {
			return "", st
		}
		for j, k := range op.Keys {
			m[k] = op.Vals[j%len(op.Vals)]
		}
		return "", c13Canon(m)
	case "get":
		v, okk := m[op.Key]
		if !okk {
			return "<nil>,false", st
		}
		return fmt.Sprintf("%d,true", v), st
	case "has":
		_, okk := m[op.Key]
		return strconv.FormatBool(okk), st
	case "len":
		return strconv.Itoa(len(m)), st
	case "keys":
		ks := make([]string, 0, len(m))
		for k := range m {
			ks = append(ks, k)
		}
		sort.Strings(ks)
		return strings.Join(ks, ","), st
	case "getall":
		return st, st
	case "getint", "getintor", "getfloat", "getstring", "getsliceor", "getbool", "getmapor", "bind":
		// Typed getters and Bind are reads. WHAT they answer for a given stored value is C15/C16's
		// business; here only their linearizability matters, so the sequential specification is
		// calibrated on the implementation itself (single-threaded, see c13Calibrate).
		v, okk := m[op.Key]
		if !okk {
			v = -1
		}
		return c13Calibrate()[fmt.Sprintf("%s|%d", op.Op, v)], st
	}
	panic("unknown op " + op.Op)
}

// c13Val: model values >= 1000 stand for the typed slice []int{v-1000} (so that reads which
// secretly write a converted value back are visible), everything else is the int itself.
func c13Val(v int) any {
	if v >= 1000 {
		return []int{v - 1000}
	}
	return v
}

// c13Decode maps a stored value back to the model's integer; -1 = not what was stored.
func c13Decode(v any) int {
	switch x := v.(type) {
	case int:
		return x
	case []int:
		if len(x) == 1 {
			return 1000 + x[0]
		}
	}
	return -1
}

var (
	c13CalibOnce sync.Once
	c13CalibTab  map[string]string
)

// c13Calibrate records, single-threaded, what every typed getter / Bind answers for every value
// the histories can store (missing, ints 1..9, typed slices 1001..1009).
func c13Calibrate() map[string]string {
	c13CalibOnce.Do(func() {
		c13CalibTab = map[string]string{}
		states := []int{-1}
		for v := 1; v <= 9; v++ {
			states = append(states, v, 1000+v)
		}
		for _, op := range []string{"getint", "getintor", "getfloat", "getstring", "getsliceor", "getbool", "getmapor", "bind"} {
			for _, v := range states {
				s := flyt.NewSharedStore()
				if v >= 0 {
					s.Set("k0", c13Val(v))
				}
				c13CalibTab[fmt.Sprintf("%s|%d", op, v)] = c13Exec(s, StoreOp{Op: op, Key: "k0"})
			}
		}
	})
	return c13CalibTab
}

// c13Exec runs one op against the real store and renders its output like the model does.
func c13Exec(s *flyt.SharedStore, op StoreOp) string {
	switch op.Op {
	case "set":
		s.Set(op.Key, c13Val(op.Val))
	case "delete":
		s.Delete(op.Key)
	case "clear":
		s.Clear()
	case "merge":
		if op.Nil {
			s.Merge(nil)
			break
		}
		in := make(map[string]any, len(op.Keys))
		for j, k := range op.Keys {
			in[k] = c13Val(op.Vals[j%len(op.Vals)])
		}
		s.Merge(in)
		// the argument stays the caller's: it goes on using (here: emptying) its own map, which an
		// ordinary map merged from it would never notice
		for k := range in {
			delete(in, k)
		}
		in["\x00caller"] = 0
	case "get":
		v, okk := s.Get(op.Key)
		if !okk {
			return "<nil>,false"
		}
		return fmt.Sprintf("%d,%v", c13Decode(v), okk)
	case "has":
		return strconv.FormatBool(s.Has(op.Key))
	case "len":
		return strconv.Itoa(s.Len())
	case "keys":
		ks := s.Keys()
		sort.Strings(ks)
		return strings.Join(ks, ",")
	case "getall":
		all := s.GetAll()
		m := c13State{}
		for k, v := range all {
			m[k] = c13Decode(v)
		}
		return c13Canon(m)
	case "getint":
		return strconv.Itoa(s.GetInt(op.Key))
	case "getintor":
		return strconv.Itoa(s.GetIntOr(op.Key, -99))
	case "getfloat":
		return fmt.Sprint(s.GetFloat64(op.Key))
	case "getstring":
		return s.GetString(op.Key)
	case "getbool":
		return strconv.FormatBool(s.GetBool(op.Key))
	case "getmapor":
		return fmt.Sprintf("%v", s.GetMapOr(op.Key, map[string]any{"dm": 1}))
	case "bind":
		// the JSON path: an int arrives as float64, a []int as []any of float64
		var dst any
		if err := s.Bind(op.Key, &dst); err != nil {
			return "err"
		}
		return fmt.Sprintf("%T:%v", dst, dst)
	case "getsliceor":
		return fmt.Sprintf("%v", s.GetSliceOr(op.Key, []any{"d"}))
	}
	return ""
}

var c13Model = porcupine.Model{
	Init: func() interface{} { return "" },
	Step: func(state, input, output interface{}) (bool, interface{}) {
		out, next := c13Apply(state.(string), input.(StoreOp))
		return out == output.(string), next
	},
	Equal: func(a, b interface{}) bool { return a.(string) == b.(string) },
	Hash: func(s interface{}) uint64 {
		h := fnv.New64a()
		h.Write([]byte(s.(string)))
		return h.Sum64()
	},
	DescribeOperation: func(in, out interface{}) string { return fmt.Sprintf("%s -> %s", in.(StoreOp), out) },
}

func c13CheckHistory(h []HistOp) porcupine.CheckResult {
	ops := make([]porcupine.Operation, len(h))
	for i, o := range h {
		ops[i] = porcupine.Operation{ClientId: o.Client, Input: o.Op, Call: o.Call, Output: o.Out, Return: o.Ret}
	}
	return porcupine.CheckOperationsTimeout(c13Model, ops, 20*time.Second)
}

// c13RunOnce executes the program once on a fresh store and returns the recorded history.
func c13RunOnce(p *C13Program) []HistOp {
	s := flyt.NewSharedStore()
	var clock int64
	var wg sync.WaitGroup
	start := make(chan struct{})
	hist := make([][]HistOp, len(p.Threads))
	for ti, ops := range p.Threads {
		wg.Add(1)
		go func(ti int, ops []StoreOp) {
			defer wg.Done()
			<-start
			for _, op := range ops {
				call := atomic.AddInt64(&clock, 1)
				var out string
				if p, v := recoverCall(func() { out = c13Exec(s, op) }); p {
					out = fmt.Sprintf("PANIC: %v", v) // no operation on an ordinary map panics: never linearizable
				}
				ret := atomic.AddInt64(&clock, 1)
				hist[ti] = append(hist[ti], HistOp{Client: ti, Op: op, Out: out, Call: call, Ret: ret})
			}
		}(ti, ops)
	}
	close(start)
	wg.Wait()
	var all []HistOp
	for _, h := range hist {
		all = append(all, h...)
	}
	return all
}

func histNonTrivial(h []HistOp) bool {
	// a multi-key operation overlapping in time with a write
	multi := func(o StoreOp) bool {
		return o.Op == "merge" || o.Op == "clear" || o.Op == "getall" || o.Op == "keys" || o.Op == "len"
	}
	write := func(o StoreOp) bool {
		return o.Op == "set" || o.Op == "delete" || o.Op == "merge" || o.Op == "clear"
	}
	for i, a := range h {
		if !multi(a.Op) {
			continue
		}
		for j, b := range h {
			if i != j && a.Client != b.Client && write(b.Op) && a.Call <= b.Ret && b.Call <= a.Ret {
				return true
			}
		}
	}
	return false
}

var c13Unknown int64

func checkC13(t *testing.T, c C13Case) Verdict {
	if len(c.History) > 0 {
		// replay: re-check the recorded history (deterministic), then also re-run the program
		switch c13CheckHistory(c.History) {
		case porcupine.Illegal:
			return bad("C13:not-linearizable", "recorded history is not linearizable:\n%s", renderHist(c.History))
		}
	}
	reps := c.Program.Reps
	if reps < 1 {
		reps = 1
	}
	nontrivial := false
	for r := 0; r < reps; r++ {
		h := c13RunOnce(&c.Program)
		switch c13CheckHistory(h) {
		case porcupine.Illegal:
			v := bad("C13:not-linearizable", "history (rep %d) is not equivalent to any sequential order on a map:\n%s", r, renderHist(h))
			v.Replay = C13Case{Program: c.Program, History: h}
			return v
		case porcupine.Unknown:
			atomic.AddInt64(&c13Unknown, 1)
		}
		if !nontrivial && histNonTrivial(h) {
			nontrivial = true
		}
	}
	return ok(nontrivial, fmt.Sprintf("threads=%d", len(c.Program.Threads)))
}

func renderHist(h []HistOp) string {
	sorted := append([]HistOp(nil), h...)
	sort.Slice(sorted, func(i, j int) bool { return sorted[i].Call < sorted[j].Call })
	var b strings.Builder
	for _, o := range sorted {
		fmt.Fprintf(&b, "  [%3d,%3d] g%d %s -> %q\n", o.Call, o.Ret, o.Client, o.Op, o.Out)
	}
	return b.String()
}

func genC13(rt *rapid.T) C13Case {
	nt := rapid.IntRange(2, 6).Draw(rt, "threads")
	opsAll := []string{"set", "set", "get", "has", "delete", "len", "keys", "getall", "merge", "merge", "clear", "getint", "getintor", "getfloat", "getstring", "getsliceor", "getsliceor", "getbool", "getmapor", "bind", "bind"}
	var p C13Program
	for ti := 0; ti < nt; ti++ {
		no := rapid.IntRange(1, 8).Draw(rt, "nops")
		var ops []StoreOp
		for i := 0; i < no; i++ {
			op := StoreOp{Op: opsAll[uniform(rt, len(opsAll), "op")]}
			op.Key = c13Keys[uniform(rt, len(c13Keys), "key")]
			op.Val = 1 + uniform(rt, 9, "val")
			if uniform(rt, 4, "slice") == 0 {
				op.Val += 1000 // a typed-slice value
			}
			if op.Op == "merge" {
				if uniform(rt, 8, "nil") == 0 {
					op.Nil = true
				} else {
					nk := 1 + uniform(rt, 4, "nk")
					perm := []string{"k0", "k1", "k2", "k3"}
					off := uniform(rt, 4, "off")
					for j := 0; j < nk; j++ {
						op.Keys = append(op.Keys, perm[(off+j)%4])
					}
					op.Vals = []int{op.Val}
				}
			}
			ops = append(ops, op)
		}
		p.Threads = append(p.Threads, ops)
	}
	p.Reps = 20
	if readEnv().tier == "thorough" {
		p.Reps = 50
	}
	return C13Case{Program: p}
}

// ---- (B) atomicity stress: every snapshot is all-of-one-generation or empty

type C13Stress struct {
	Keys    int `json:"keys"`
	Writers int `json:"writers"`
	Readers int `json:"readers"`
	Rounds  int `json:"rounds"`
	// filled in when a violation is recorded
	Observed string `json:"observed,omitempty"`
}

func checkC13Stress(t *testing.T, c C13Stress) Verdict {
	s := flyt.NewSharedStore()
	keys := make([]string, c.Keys)
	for i := range keys {
		keys[i] = fmt.Sprintf("key%03d", i)
	}
	var stop int32
	var wg sync.WaitGroup
	var failMu sync.Mutex
	fail := ""
	setFail := func(m string) {
		failMu.Lock()
		if fail == "" {
			fail = m
		}
		failMu.Unlock()
		atomic.StoreInt32(&stop, 1)
	}
	var snapshots int64
	for w := 0; w < c.Writers; w++ {
		wg.Add(1)
		go func(w int) {
			defer wg.Done()
			for g := 1; g <= c.Rounds && atomic.LoadInt32(&stop) == 0; g++ {
				gen := w*1000000 + g
				m := make(map[string]any, len(keys))
				for _, k := range keys {
					m[k] = gen
				}
				s.Merge(m)
				if g%3 == 0 {
					s.Clear()
				}
			}
		}(w)
	}
	var rg sync.WaitGroup
	for r := 0; r < c.Readers; r++ {
		rg.Add(1)
		go func(r int) {
			defer rg.Done()
			for atomic.LoadInt32(&stop) == 0 {
				atomic.AddInt64(&snapshots, 1)
				switch r % 3 {
				case 0:
					all := s.GetAll()
					if len(all) != 0 && len(all) != len(keys) {
						setFail(fmt.Sprintf("GetAll observed %d of %d keys: part of a Merge or a half-cleared store", len(all), len(keys)))
						return
					}
					gen := -1
					for k, v := range all {
						if gen == -1 {
							gen = v.(int)
						} else if v.(int) != gen {
							setFail(fmt.Sprintf("GetAll observed a mix of two Merges (generation %d and %d at key %s)", gen, v.(int), k))
							return
						}
					}
				case 1:
					if n := len(s.Keys()); n != 0 && n != len(keys) {
						setFail(fmt.Sprintf("Keys observed %d of %d keys", n, len(keys)))
						return
					}
				case 2:
					if n := s.Len(); n != 0 && n != len(keys) {
						setFail(fmt.Sprintf("Len observed %d of %d keys", n, len(keys)))
						return
					}
				}
				runtime.Gosched()
			}
		}(r)
	}
	wg.Wait()
	atomic.StoreInt32(&stop, 1)
	rg.Wait()
	if fail != "" {
		return bad("C13:merge-clear-not-atomic", "%s (keys=%d writers=%d readers=%d)", fail, c.Keys, c.Writers, c.Readers)
	}
	return Verdict{NonTrivial: atomic.LoadInt64(&snapshots) > 10, Classes: []string{"stress"}}
}

func genC13Stress(rt *rapid.T) C13Stress {
	return C13Stress{Keys: rapid.SampledFrom([]int{8, 16, 33, 64, 300, 1000}).Draw(rt, "keys"), Writers: rapid.IntRange(1, 3).Draw(rt, "w"),
		Readers: rapid.IntRange(1, 6).Draw(rt, "r"), Rounds: rapid.IntRange(50, 400).Draw(rt, "rounds")}
}

// ---- (B2) disjoint writers: writes to different keys commute, so after all writers have
// returned every key must be present - a write lost to a non-atomic Merge/Set shows here.

type C13Disjoint struct {
	MergeKeys int  `json:"merge_keys"`
	Setters   int  `json:"setters"`
	PerSetter int  `json:"per_setter"`
	Prefill   bool `json:"prefill"` // store non-empty before the writers start
	Rounds    int  `json:"rounds"`
}

func checkC13Disjoint(t *testing.T, c C13Disjoint) Verdict {
	for round := 0; round < c.Rounds; round++ {
		s := flyt.NewSharedStore()
		want := 0
		if c.Prefill {
			s.Set("pre", 1)
			want++
		}
		big := make(map[string]any, c.MergeKeys)
		for i := 0; i < c.MergeKeys; i++ {
			big[fmt.Sprintf("m%05d", i)] = i
		}
		start := make(chan struct{})
		var wg sync.WaitGroup
		wg.Add(1 + c.Setters)
		go func() {
			defer wg.Done()
			<-start
			s.Merge(big)
		}()
		for w := 0; w < c.Setters; w++ {
			go func(w int) {
				defer wg.Done()
				<-start
				for j := 0; j < c.PerSetter; j++ {
					if j%3 == 2 {
						s.Merge(map[string]any{fmt.Sprintf("s%d-%d", w, j): j})
					} else {
						s.Set(fmt.Sprintf("s%d-%d", w, j), j)
					}
				}
			}(w)
		}
		close(start)
		wg.Wait()
		want += c.MergeKeys + c.Setters*c.PerSetter
		if got := s.Len(); got != want {
			missing := ""
			for w := 0; w < c.Setters && missing == ""; w++ {
				for j := 0; j < c.PerSetter; j++ {
					if k := fmt.Sprintf("s%d-%d", w, j); !s.Has(k) {
						missing = k
						break
					}
				}
			}
			if missing == "" && c.Prefill && !s.Has("pre") {
				missing = "pre"
			}
			return bad("C13:lost-write", "round %d: %d goroutines wrote disjoint keys concurrently (one Merge of %d keys, %d x %d Sets/Merges, prefilled=%v); afterwards Len()=%d, want %d; e.g. key %q is gone - a completed write was lost", round, 1+c.Setters, c.MergeKeys, c.Setters, c.PerSetter, c.Prefill, got, want, missing)
		}
	}
	return Verdict{NonTrivial: true, Classes: []string{"disjoint-writers"}}
}

func genC13Disjoint(rt *rapid.T) C13Disjoint {
	return C13Disjoint{MergeKeys: rapid.SampledFrom([]int{64, 512, 4096, 20000}).Draw(rt, "mk"), Setters: rapid.IntRange(1, 4).Draw(rt, "setters"),
		PerSetter: rapid.IntRange(1, 40).Draw(rt, "per"), Prefill: rapid.Bool().Draw(rt, "prefill"), Rounds: rapid.IntRange(3, 12).Draw(rt, "rounds")}
}

func TestC13(t *testing.T) {
	r := newRun(t, "C13")
	defer r.finish()
	race := os.Getenv("VERIF_RACE_JOB") != ""
	scale := 1
	if race {
		scale = 4 // the race build is slower
	}
	rapidPart(r, "histories", r.pick(600, 8000)/scale, genC13, checkC13)
	rapidPart(r, "atomicity-stress", r.pick(150, 2000)/scale, genC13Stress, checkC13Stress)
	rapidPart(r, "disjoint-writers", r.pick(120, 1500)/scale, genC13Disjoint, checkC13Disjoint)
	if n := atomic.LoadInt64(&c13Unknown); n > 0 {
		r.note("porcupine returned Unknown (timeout) for %d histories; they are not counted as violations", n)
		if n > 50 {
			r.inconclusive("porcupine timed out on %d histories", n)
		}
	}
}

func init() {
	registerReplay("C13", checkC13)
	registerReplaySub("C13", "atomicity-stress", checkC13Stress)
	registerReplaySub("C13", "disjoint-writers", checkC13Disjoint)
}
