package harness

import (
	"fmt"
	"math"
	"reflect"
	"testing"

	"github.com/mark3labs/flyt"
	"pgregory.net/rapid"
)

// C15 — typed accessors are total, mutually consistent and faithful.

type C15Case struct {
	V Recipe `json:"v"`
}

var builtinNum = map[reflect.Type]bool{}

func init() {
	for _, v := range []any{int(0), int8(0), int16(0), int32(0), int64(0), uint(0), uint8(0), uint16(0), uint32(0), uint64(0), float32(0), float64(0)} {
		builtinNum[reflect.TypeOf(v)] = true
	}
}

// refInt: documented semantics of the int conversion. exact=false when Go leaves the
// float->int conversion implementation-defined (NaN, Inf, out of range).
func refInt(v any) (val int, okk bool, exact bool) {
	if v == nil || !builtinNum[reflect.TypeOf(v)] {
		return 0, false, true
	}
	rv := reflect.ValueOf(v)
	switch rv.Kind() {
	case reflect.Int, reflect.Int8, reflect.Int16, reflect.Int32, reflect.Int64:
		return int(rv.Int()), true, true
	case reflect.Uint, reflect.Uint8, reflect.Uint16, reflect.Uint32, reflect.Uint64:
		return int(rv.Uint()), true, true
	default:
		f := rv.Float()
		if math.IsNaN(f) || math.IsInf(f, 0) || f >= 9.223372036854775807e18 || f <= -9.223372036854775809e18 {
			return 0, true, false
		}
		return int(f), true, true
	}
}

func refFloat(v any) (float64, bool) {
	if v == nil || !builtinNum[reflect.TypeOf(v)] {
		return 0, false
	}
	rv := reflect.ValueOf(v)
	switch rv.Kind() {
	case reflect.Int, reflect.Int8, reflect.Int16, reflect.Int32, reflect.Int64:
		return float64(rv.Int()), true
	case reflect.Uint, reflect.Uint8, reflect.Uint16, reflect.Uint32, reflect.Uint64:
		return float64(rv.Uint()), true
	}
	return rv.Float(), true
}

func refSlice(v any) ([]any, bool) {
	if v == nil {
		return nil, false
	}
	rv := reflect.ValueOf(v)
	if rv.Kind() != reflect.Slice {
		return nil, false
	}
	out := make([]any, rv.Len())
	for i := range out {
		out[i] = rv.Index(i).Interface()
	}
	return out, true
}

func floatSame(a, b float64) bool { return a == b || (math.IsNaN(a) && math.IsNaN(b)) }

func slicesSame(a, b []any) string {
	if len(a) != len(b) {
		return fmt.Sprintf("length %d vs %d", len(a), len(b))
	}
	for i := range a {
		if !deepEq(a[i], b[i]) {
			return fmt.Sprintf("element %d: %#v vs %#v", i, a[i], b[i])
		}
	}
	return ""
}

// guard runs one accessor and converts a panic into a violation message.
func guard(name string, fn func()) string {
	if p, v := recoverCall(fn); p {
		return fmt.Sprintf("%s panicked: %v", name, v)
	}
	return ""
}

func mustPanics(fn func()) bool { p, _ := recoverCall(fn); return p }

func c15Check(v any) (fp, msg string) {
	tname := describeVal(v)
	r := flyt.NewResult(v)
	s := flyt.NewSharedStore()
	s.Set("k", v)
	fail := func(fp, format string, a ...any) (string, string) {
		return fp, fmt.Sprintf("value of type %s (%#v): ", tname, v) + fmt.Sprintf(format, a...)
	}
	var m string
	// ---------- string
	var gs string
	var gok bool
	if m = guard("AsString", func() { gs, gok = r.AsString() }); m != "" {
		return fail("C15:panic:AsString", "%s", m)
	}
	ws, wok := v.(string)
	if gok != wok || gs != ws {
		return fail("C15:AsString", "AsString()=(%q,%v), documented (%q,%v)", gs, gok, ws, wok)
	}
	var or string
	if m = guard("AsStringOr", func() { or = r.AsStringOr("dflt") }); m != "" {
		return fail("C15:panic:AsStringOr", "%s", m)
	}
	if (wok && or != ws) || (!wok && or != "dflt") {
		return fail("C15:AsStringOr", "AsStringOr(dflt)=%q but AsString ok=%v value %q", or, wok, ws)
	}
	if mustPanics(func() { gs = r.MustString() }) == wok {
		return fail("C15:MustString", "MustString panics=%v but AsString ok=%v", !wok, wok)
	}
	var st1, st2 string
	if m = guard("GetString/GetStringOr", func() { st1, st2 = s.GetString("k"), s.GetStringOr("k", "dflt") }); m != "" {
		return fail("C15:panic:GetString", "%s", m)
	}
	if st1 != r.AsStringOr("") || st2 != or {
		return fail("C15:store-string", "store GetString=%q GetStringOr=%q, result AsStringOr gives %q / %q", st1, st2, r.AsStringOr(""), or)
	}
	// ---------- int
	var gi int
	if m = guard("AsInt", func() { gi, gok = r.AsInt() }); m != "" {
		return fail("C15:panic:AsInt", "%s", m)
	}
	wi, wiok, exact := refInt(v)
	if gok != wiok || (exact && gi != wi) {
		return fail("C15:AsInt", "AsInt()=(%d,%v), documented source types and Go's conversion give (%d,%v)", gi, gok, wi, wiok)
	}
	var ior int
	if m = guard("AsIntOr", func() { ior = r.AsIntOr(-77) }); m != "" {
		return fail("C15:panic:AsIntOr", "%s", m)
	}
	if (wiok && ior != gi) || (!wiok && ior != -77) {
		return fail("C15:AsIntOr", "AsIntOr(-77)=%d but AsInt=(%d,%v)", ior, gi, gok)
	}
	if mustPanics(func() { _ = r.MustInt() }) == wiok {
		return fail("C15:MustInt", "MustInt panics=%v but AsInt ok=%v", !wiok, wiok)
	}
	var si1, si2 int
	if m = guard("GetInt/GetIntOr", func() { si1, si2 = s.GetInt("k"), s.GetIntOr("k", -77) }); m != "" {
		return fail("C15:panic:GetInt", "%s", m)
	}
	if si1 != r.AsIntOr(0) || si2 != ior {
		return fail("C15:store-int", "store GetInt=%d GetIntOr=%d, result AsIntOr gives %d / %d", si1, si2, r.AsIntOr(0), ior)
	}
	// ---------- float64
	var gf float64
	if m = guard("AsFloat64", func() { gf, gok = r.AsFloat64() }); m != "" {
		return fail("C15:panic:AsFloat64", "%s", m)
	}
	wf, wfok := refFloat(v)
	if gok != wfok || !floatSame(gf, wf) {
		return fail("C15:AsFloat64", "AsFloat64()=(%v,%v), documented (%v,%v)", gf, gok, wf, wfok)
	}
	var forr float64
	if m = guard("AsFloat64Or", func() { forr = r.AsFloat64Or(-7.5) }); m != "" {
		return fail("C15:panic:AsFloat64Or", "%s", m)
	}
	if (wfok && !floatSame(forr, wf)) || (!wfok && forr != -7.5) {
		return fail("C15:AsFloat64Or", "AsFloat64Or(-7.5)=%v but AsFloat64=(%v,%v)", forr, gf, gok)
	}
	if mustPanics(func() { _ = r.MustFloat64() }) == wfok {
		return fail("C15:MustFloat64", "MustFloat64 panics=%v but ok=%v", !wfok, wfok)
	}
	var sf1, sf2 float64
	if m = guard("GetFloat64/Or", func() { sf1, sf2 = s.GetFloat64("k"), s.GetFloat64Or("k", -7.5) }); m != "" {
		return fail("C15:panic:GetFloat64", "%s", m)
	}
	if !floatSame(sf1, r.AsFloat64Or(0)) || !floatSame(sf2, forr) {
		return fail("C15:store-float", "store GetFloat64=%v GetFloat64Or=%v, result gives %v / %v", sf1, sf2, r.AsFloat64Or(0), forr)
	}
	// ---------- bool
	var gb bool
	if m = guard("AsBool", func() { gb, gok = r.AsBool() }); m != "" {
		return fail("C15:panic:AsBool", "%s", m)
	}
	wb, wbok := v.(bool)
	if gok != wbok || gb != wb {
		return fail("C15:AsBool", "AsBool()=(%v,%v), documented (%v,%v)", gb, gok, wb, wbok)
	}
	if got := r.AsBoolOr(true); (wbok && got != wb) || (!wbok && got != true) {
		return fail("C15:AsBoolOr", "AsBoolOr(true)=%v but AsBool=(%v,%v)", got, wb, wbok)
	}
	if got := r.AsBoolOr(false); (wbok && got != wb) || (!wbok && got != false) {
		return fail("C15:AsBoolOr", "AsBoolOr(false)=%v but AsBool=(%v,%v)", got, wb, wbok)
	}
	if mustPanics(func() { _ = r.MustBool() }) == wbok {
		return fail("C15:MustBool", "MustBool panics=%v but ok=%v", !wbok, wbok)
	}
	if s.GetBool("k") != r.AsBoolOr(false) || s.GetBoolOr("k", true) != r.AsBoolOr(true) {
		return fail("C15:store-bool", "store GetBool/GetBoolOr disagree with the result accessor")
	}
	// ---------- map
	var gm map[string]any
	if m = guard("AsMap", func() { gm, gok = r.AsMap() }); m != "" {
		return fail("C15:panic:AsMap", "%s", m)
	}
	wm, wmok := v.(map[string]any)
	if gok != wmok || !sameOrDeep(gm, wm) {
		return fail("C15:AsMap", "AsMap ok=%v, documented ok=%v (same map: %v)", gok, wmok, sameOrDeep(gm, wm))
	}
	dm := map[string]any{"default": 1}
	if got := r.AsMapOr(dm); (wmok && !sameOrDeep(got, wm)) || (!wmok && !sameOrDeep(got, dm)) {
		return fail("C15:AsMapOr", "AsMapOr returned the wrong map (ok=%v)", wmok)
	}
	if mustPanics(func() { _ = r.MustMap() }) == wmok {
		return fail("C15:MustMap", "MustMap panics=%v but ok=%v", !wmok, wmok)
	}
	var sm1, sm2 map[string]any
	if m = guard("GetMap/Or", func() { sm1, sm2 = s.GetMap("k"), s.GetMapOr("k", dm) }); m != "" {
		return fail("C15:panic:GetMap", "%s", m)
	}
	if !sameOrDeep(sm1, r.AsMapOr(nil)) || !sameOrDeep(sm2, r.AsMapOr(dm)) {
		return fail("C15:store-map", "store GetMap/GetMapOr disagree with the result accessor")
	}
	// ---------- slice
	var gsl []any
	if m = guard("AsSlice", func() { gsl, gok = r.AsSlice() }); m != "" {
		return fail("C15:panic:AsSlice", "%s", m)
	}
	wsl, wslok := refSlice(v)
	if gok != wslok {
		return fail("C15:AsSlice-ok", "AsSlice ok=%v, but the value %s a slice", gok, map[bool]string{true: "is", false: "is not"}[wslok])
	}
	if wslok {
		if d := slicesSame(gsl, wsl); d != "" {
			return fail("C15:AsSlice-elems", "AsSlice elements differ from the slice's own elements: %s", d)
		}
	}
	dsl := []any{"default"}
	var sor []any
	if m = guard("AsSliceOr", func() { sor = r.AsSliceOr(dsl) }); m != "" {
		return fail("C15:panic:AsSliceOr", "%s", m)
	}
	if wslok {
		if d := slicesSame(sor, wsl); d != "" {
			return fail("C15:AsSliceOr", "AsSliceOr differs: %s", d)
		}
	} else if len(sor) != 1 || sor[0] != "default" {
		return fail("C15:AsSliceOr", "AsSliceOr returned %#v for a non-slice instead of the default", sor)
	}
	var mp bool
	if m = guard("MustSlice(recover)", func() { mp = mustPanics(func() { _ = r.MustSlice() }) }); m != "" {
		return fail("C15:panic:MustSlice", "%s", m)
	}
	if mp == wslok {
		return fail("C15:MustSlice", "MustSlice panics=%v but the value is a slice=%v", mp, wslok)
	}
	var ss1, ss2 []any
	if m = guard("GetSlice/GetSliceOr", func() { ss1, ss2 = s.GetSlice("k"), s.GetSliceOr("k", dsl) }); m != "" {
		return fail("C15:panic:GetSlice", "%s", m)
	}
	if wslok {
		if d := slicesSame(ss1, wsl); d != "" {
			return fail("C15:store-slice", "store GetSlice differs from the result accessor: %s", d)
		}
		if d := slicesSame(ss2, wsl); d != "" {
			return fail("C15:store-slice", "store GetSliceOr differs from the result accessor: %s", d)
		}
	} else {
		if ss1 != nil {
			return fail("C15:store-slice", "store GetSlice returned %#v for a non-slice", ss1)
		}
		if len(ss2) != 1 || ss2[0] != "default" {
			return fail("C15:store-slice", "store GetSliceOr returned %#v for a non-slice instead of the default", ss2)
		}
	}
	// ---------- ToSlice
	var ts []any
	if m = guard("ToSlice", func() { ts = flyt.ToSlice(v) }); m != "" {
		return fail("C15:panic:ToSlice", "%s", m)
	}
	switch {
	case v == nil:
		if len(ts) != 0 {
			return fail("C15:ToSlice-nil", "ToSlice(nil)=%#v, want an empty slice", ts)
		}
	case wslok:
		if d := slicesSame(ts, wsl); d != "" {
			return fail("C15:ToSlice-slice", "ToSlice differs from the slice's elements: %s", d)
		}
	default:
		if len(ts) != 1 || !sameValue(ts[0], v) && !deepEq(ts[0], v) {
			return fail("C15:ToSlice-single", "ToSlice(non-slice)=%#v, want a one-element slice holding the value", ts)
		}
	}
	// ---------- As[T] / MustAs[T]
	asMsg := ""
	if m = guard("As[T]", func() {
		if got, okk := flyt.As[int](r); func() bool { w, wk := v.(int); return got != w || okk != wk }() {
			asMsg = "As[int] disagrees with a type assertion"
		}
		if got, okk := flyt.As[string](r); func() bool { w, wk := v.(string); return got != w || okk != wk }() {
			asMsg = "As[string] disagrees with a type assertion"
		}
		if got, okk := flyt.As[*Tok](r); func() bool { w, wk := v.(*Tok); return got != w || okk != wk }() {
			asMsg = "As[*Tok] disagrees with a type assertion"
		}
		if _, okk := flyt.As[[]int](r); func() bool { _, wk := v.([]int); return okk != wk }() {
			asMsg = "As[[]int] disagrees with a type assertion"
		}
		if _, okk := flyt.As[error](r); func() bool { _, wk := v.(error); return okk != wk }() {
			asMsg = "As[error] disagrees with a type assertion"
		}
		if _, okk := flyt.As[fmt.Stringer](r); func() bool { _, wk := v.(fmt.Stringer); return okk != wk }() {
			asMsg = "As[fmt.Stringer] disagrees with a type assertion"
		}
		if _, okk := flyt.As[any](r); okk != (v != nil) {
			asMsg = "As[any] ok must be true exactly for non-nil values"
		}
		if _, okk := flyt.As[Tagged](r); func() bool { _, wk := v.(Tagged); return okk != wk }() {
			asMsg = "As[Tagged] disagrees with a type assertion"
		}
		_, isInt := v.(int)
		if mustPanics(func() { _ = flyt.MustAs[int](r) }) == isInt {
			asMsg = "MustAs[int] panics iff As[int] is not ok - violated"
		}
		if mustPanics(func() { _ = flyt.MustAs[any](r) }) == (v != nil) {
			asMsg = "MustAs[any] panics iff value is nil - violated"
		}
	}); m != "" {
		return fail("C15:panic:As", "%s", m)
	}
	if asMsg != "" {
		return fail("C15:As", "%s", asMsg)
	}
	// ---------- reads are reads: no accessor may have changed what the store holds
	if got, present := s.Get("k"); !present || s.Len() != 1 || (!sameValue(got, v) && !deepEq(got, v)) || reflect.TypeOf(got) != reflect.TypeOf(v) {
		return fail("C15:getter-mutates-store", "after the typed getters the store holds %#v (%T), it was given %#v (%T)", got, got, v, v)
	}
	// ---------- misc total functions
	miscMsg := ""
	if m = guard("IsNil/Type/Value/IsError/Error", func() {
		_ = r.IsNil() // total; what it answers for typed nils is not part of the statement
		_ = r.Type()
		if !sameValue(r.Value(), v) && !deepEq(r.Value(), v) {
			miscMsg = "Value() does not return the wrapped value"
		}
		if r.IsError() || r.Error() != nil {
			miscMsg = "a value Result reports an error"
		}
	}); m != "" {
		return fail("C15:panic:misc", "%s", m)
	}
	if miscMsg != "" {
		return fail("C15:misc", "%s", miscMsg)
	}
	return "", ""
}

// missing key: every store getter yields its zero/default and never panics.
func c15Missing() (fp, msg string) {
	s := flyt.NewSharedStore()
	var m string
	missMsg := ""
	if m = guard("store getters on a missing key", func() {
		m := &missMsg
		dm := map[string]any{"d": 1}
		ds := []any{"d"}
		switch {
		case s.GetString("x") != "" || s.GetStringOr("x", "d") != "d":
			*m = "GetString on missing key"
		case s.GetInt("x") != 0 || s.GetIntOr("x", 5) != 5:
			*m = "GetInt on missing key"
		case s.GetFloat64("x") != 0 || s.GetFloat64Or("x", 1.5) != 1.5:
			*m = "GetFloat64 on missing key"
		case s.GetBool("x") || !s.GetBoolOr("x", true):
			*m = "GetBool on missing key"
		case s.GetSlice("x") != nil || len(s.GetSliceOr("x", ds)) != 1:
			*m = "GetSlice on missing key"
		case s.GetMap("x") != nil || !sameOrDeep(s.GetMapOr("x", dm), dm):
			*m = "GetMap on missing key"
		}
	}); m != "" {
		return "C15:panic:missing-key", m
	}
	if missMsg != "" {
		return "C15:missing-key", missMsg
	}
	return "", ""
}

func c15NonTrivial(r Recipe) bool {
	switch r.K {
	case "nil":
		return false
	case "int", "float64":
		switch r.N {
		case "0", "1", "42", "-1", "0.5":
			return false
		}
	case "string", "bool":
		return false
	}
	return true
}

func checkC15(t *testing.T, c C15Case) Verdict {
	var v any
	if p, pv := recoverCall(func() { v = c.V.build() }); p {
		return Verdict{Classes: []string{"unbuildable"}, Sample: fmt.Sprint(pv)}
	}
	if fp, msg := c15Check(v); msg != "" {
		return bad(fp, "%s", msg)
	}
	if fp, msg := c15Missing(); msg != "" {
		return bad(fp, "%s", msg)
	}
	return ok(c15NonTrivial(c.V), "kind:"+c.V.K)
}

func genC15(rt *rapid.T) C15Case { return C15Case{V: genRecipe(rt, 3)} }

func TestC15(t *testing.T) {
	r := newRun(t, "C15")
	defer r.finish()
	hv := hostileValues()
	for i, rc := range hv {
		if r.mine(i) {
			evalCase(r, "hostile-list", C15Case{V: rc}, checkC15)
		}
	}
	r.exhaustive(fmt.Sprintf("fixed list of %d hostile values (all 12 numeric source kinds x boundary values incl. NaN/Inf/-0/2^53+1/min/max, named types, typed nils, funcs, chans, maps, arrays, anonymous structs with slices/maps, nested and typed slices, Rec) x every accessor family x {Result, SharedStore}", len(hv)))
	rapidPart(r, "rand-recipes", r.pick(6000, 100000), genC15, checkC15)
}

// FuzzC15: coverage-guided search over the same recipe decoder (thorough tier).
func FuzzC15(f *testing.F) {
	f.Add([]byte{0})
	f.Add([]byte("nan-inf-typed-nil"))
	f.Fuzz(rapid.MakeFuzz(func(rt *rapid.T) {
		c := genC15(rt)
		v := checkC15(nil, c)
		if v.Violation != "" {
			writeFuzzReplay("C15", c, v)
			rt.Fatalf("VIOLATION C15: %s", v.Violation)
		}
	}))
}

func init() { registerReplay("C15", checkC15) }
