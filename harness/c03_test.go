package harness

import (
	"context"
	"fmt"
	"reflect"
	"testing"

	"github.com/mark3labs/flyt"
	"pgregory.net/rapid"
)

// C03 — flow routing follows the transition table exactly.

func leafOrder(tr []Ev) []int {
	var out []int
	for _, e := range tr {
		if e.Phase == "prep" {
			out = append(out, e.Leaf)
		}
	}
	return out
}

func storePath(s *flyt.SharedStore) []int {
	v, _ := s.Get("path")
	p, _ := v.([]int)
	return p
}

func intsEq(a, b []int) bool {
	if len(a) == 0 && len(b) == 0 {
		return true
	}
	return reflect.DeepEqual(a, b)
}

// c03Body: success-only scenarios; the ordered visit log must equal the model's path.
func c03Body(sc *WF) Verdict {
	x := newWfExec(sc)
	m := newWfModel(sc)
	nontrivial := false
	classes := map[string]bool{}
	for r := 0; r < sc.runs(); r++ {
		rr := x.run(context.Background())
		mr := m.run()
		if rr.Panic != "" {
			return bad("C03:panic", "run %d panicked: %s", r, rr.Panic)
		}
		tr := x.snapshot()[rr.Lo:rr.Hi]
		got := leafOrder(tr)
		if !intsEq(got, mr.Visited) {
			return bad("C03:path", "run %d: nodes executed %s, the table and the returned actions determine %s", r, shortInts(got), shortInts(mr.Visited))
		}
		if !sameShape(tr, mr.Trace) {
			return bad("C03:touch", "run %d: callbacks %v, model %v", r, traceStrings(tr), modelStrings(mr.Trace))
		}
		if mr.OK && rr.Err != nil {
			return bad("C03:error", "run %d: flow ended on an unconnected/nil transition but returned error %v", r, rr.Err)
		}
		if !mr.OK && rr.Err == nil {
			return bad("C03:noerror", "run %d: model fails, run returned nil", r)
		}
		if p := storePath(rr.Store); !intsEq(p, mr.Path) {
			return bad("C03:store", "run %d: store path %v, model %v", r, p, mr.Path)
		}
		// non-triviality: path length >= 3 and (cycle or overwritten/nil connection on the path or repeated run)
		seen := map[int]bool{}
		cycle := false
		for _, l := range mr.Visited {
			if seen[l] {
				cycle = true
			}
			seen[l] = true
		}
		special := cycle || r >= 1 || c03SpecialOnPath(sc, mr)
		if cycle {
			classes["cycle"] = true
		}
		if r >= 1 {
			classes["repeated-run"] = true
		}
		if len(mr.Visited) >= 3 && special {
			nontrivial = true
		}
		if len(mr.Visited) >= 3 {
			classes["path>=3"] = true
		}
	}
	if sc.depth(sc.Root) >= 2 {
		classes["nested"] = true
	}
	var cl []string
	for c := range classes {
		cl = append(cl, c)
	}
	sortStrings(cl)
	return ok(nontrivial, append(cl, sc.batchClass()...)...)
}

// c03SpecialOnPath: does some flow have an overwritten connection or a nil target for a
// (node, action) pair? (cheap approximation of "lies on the path": any flow in the scenario)
func c03SpecialOnPath(sc *WF, mr modelRun) bool {
	for _, ns := range sc.Nodes {
		if ns.Flow == nil {
			continue
		}
		seen := map[string]bool{}
		for _, c := range ns.Flow.Conns {
			k := fmt.Sprintf("%d/%s", c.From, c.Action)
			if seen[k] || c.To < 0 {
				return true
			}
			seen[k] = true
		}
	}
	return false
}

func checkC03(t *testing.T, sc WF) Verdict { return c03Body(&sc) }

// enumC03 enumerates flat flows: k nodes x 2 actions {a,b}; every (node, action) entry in
// {unconnected, nil, n0..n(k-1)}; every start node; per node a cyclic action script of
// length 1 or 2. Each connected entry is first connected to a decoy target and then
// overwritten, so "last Connect wins" is exercised on every edge.
func enumC03(k int, fuel int, mine func(int) bool, visit func(WF)) int {
	acts := []string{"a", "b"}
	nent := k * 2
	choices := k + 2 // 0 unconnected, 1 nil, 2.. node
	var scripts [][]string
	for _, a := range acts {
		scripts = append(scripts, []string{a})
	}
	for _, a := range acts {
		for _, b := range acts {
			scripts = append(scripts, []string{a, b})
		}
	}
	total := 1
	for i := 0; i < nent; i++ {
		total *= choices
	}
	nscr := 1
	for i := 0; i < k; i++ {
		nscr *= len(scripts)
	}
	count := 0
	for tbl := 0; tbl < total; tbl++ {
		for start := 0; start < k; start++ {
			for sv := 0; sv < nscr; sv++ {
				idx := count
				count++
				if !mine(idx) {
					continue
				}
				var w WF
				s := sv
				for n := 0; n < k; n++ {
					scr := scripts[s%len(scripts)]
					s /= len(scripts)
					l := &LeafSpec{Kind: (n + tbl + sv) % numKinds, N: 1}
					if l.Kind == KFunc {
						l.Style = (tbl + sv) % numStyles
					}
					for _, a := range scr {
						l.Visits = append(l.Visits, VisitScript{Action: a, Exec: []Outcome{{Pay: n}}})
					}
					w.Nodes = append(w.Nodes, NodeSpec{Leaf: l})
				}
				fs := &FlowSpec{Start: start}
				e := tbl
				for n := 0; n < k; n++ {
					for ai, a := range acts {
						c := e % choices
						e /= choices
						_ = ai
						switch {
						case c == 0:
						case c == 1:
							fs.Conns = append(fs.Conns, Conn{From: n, Action: a, To: (n + 1) % k}) // decoy, overwritten
							fs.Conns = append(fs.Conns, Conn{From: n, Action: a, To: -1})
						default:
							fs.Conns = append(fs.Conns, Conn{From: n, Action: a, To: (c - 2 + 1) % k}) // decoy
							fs.Conns = append(fs.Conns, Conn{From: n, Action: a, To: c - 2})
						}
					}
				}
				w.Nodes = append(w.Nodes, NodeSpec{Flow: fs})
				w.Root = k
				w.Fuel = fuel
				visit(w)
			}
		}
	}
	return count
}

// ---- state-machine mode: one long-lived flow object, connect / reconnect / run interleaved.

type SMStep struct {
	Op     string `json:"op"` // connect | run | connect-in-run (performed from inside the post callback number At of the next run)
	At     int    `json:"at,omitempty"`
	From   int    `json:"from,omitempty"`
	Action string `json:"action,omitempty"`
	To     int    `json:"to,omitempty"`
}

type C03SM struct {
	Leaves []LeafSpec `json:"leaves"`
	Start  int        `json:"start"`
	Fuel   int        `json:"fuel"`
	Steps  []SMStep   `json:"steps"`
}

func genC03SM(rt *rapid.T) C03SM {
	g := wfGen{Actions: prefixActions, MaxN: 1, MaxVisits: 3}
	var s C03SM
	n := rapid.IntRange(1, 5).Draw(rt, "nleaves")
	for i := 0; i < n; i++ {
		s.Leaves = append(s.Leaves, *g.leaf(rt))
	}
	s.Start = rapid.IntRange(0, n-1).Draw(rt, "start")
	s.Fuel = rapid.IntRange(2, 10).Draw(rt, "fuel")
	ns := rapid.IntRange(1, 25).Draw(rt, "nsteps")
	for i := 0; i < ns; i++ {
		// NOTE: "connect-in-run" steps (Connect called from inside a callback of the running flow)
		// are supported by the executor and by replays but are NOT generated: C03 quantifies over
		// Connect orders and repeated sequential runs, not over rewiring a flow while it runs, and
		// an implementation that routes on a per-run snapshot would be a legitimate design.
		if k := rapid.IntRange(0, 3).Draw(rt, "isrun"); k == 0 {
			s.Steps = append(s.Steps, SMStep{Op: "run"})
		} else if k == 99 {
			s.Steps = append(s.Steps, SMStep{Op: "connect-in-run", At: rapid.IntRange(0, 4).Draw(rt, "at"), From: rapid.IntRange(0, n-1).Draw(rt, "from"),
				Action: rapid.SampledFrom(prefixActions).Draw(rt, "act"), To: rapid.IntRange(-1, n-1).Draw(rt, "to")})
		} else {
			s.Steps = append(s.Steps, SMStep{Op: "connect", From: rapid.IntRange(0, n-1).Draw(rt, "from"),
				Action: rapid.SampledFrom(g.connActions()).Draw(rt, "act"), To: rapid.IntRange(-1, n-1).Draw(rt, "to")})
		}
	}
	s.Steps = append(s.Steps, SMStep{Op: "run"})
	return s
}

func checkC03SM(t *testing.T, s C03SM) Verdict {
	// the scenario as a WF whose flow has no connections yet; connections are added step by step
	// to the live flow object and, in parallel, to the model's table.
	var w WF
	for i := range s.Leaves {
		l := s.Leaves[i]
		w.Nodes = append(w.Nodes, NodeSpec{Leaf: &l})
	}
	fs := &FlowSpec{Start: s.Start}
	w.Nodes = append(w.Nodes, NodeSpec{Flow: fs})
	w.Root = len(w.Nodes) - 1
	w.Fuel = s.Fuel
	x := newWfExec(&w)
	m := newWfModel(&w)
	flow := x.nodes[w.Root].(*flyt.Flow)
	runs, reconn := 0, 0
	nontrivial := false
	var pending []SMStep // connects to be made from inside callbacks of the next run
	for i, st := range s.Steps {
		if st.Op == "connect-in-run" {
			pending = append(pending, st)
			continue
		}
		if st.Op == "connect" {
			var to flyt.Node
			if st.To >= 0 {
				to = x.nodes[st.To]
			}
			flow.Connect(x.nodes[st.From], flyt.Action(st.Action), to)
			fs.Conns = append(fs.Conns, Conn{From: st.From, Action: st.Action, To: st.To})
			if runs > 0 {
				reconn++
			}
			continue
		}
		// Connect called from inside a node's post callback takes effect for the rest of THIS run:
		// the flow "continues with the node most recently connected to that (node, a) pair".
		posts := 0
		todo := pending
		pending = nil
		apply := func(isModel bool) func() {
			n := 0
			return func() {
				for _, d := range todo {
					if d.At != n {
						continue
					}
					if isModel {
						fs.Conns = append(fs.Conns, Conn{From: d.From, Action: d.Action, To: d.To})
					} else {
						var to flyt.Node
						if d.To >= 0 {
							to = x.nodes[d.To]
						}
						flow.Connect(x.nodes[d.From], flyt.Action(d.Action), to)
					}
				}
				n++
			}
		}
		// The model must see each dynamic connection at the same point of the walk as the real
		// flow does; both are applied "at the n-th post of the run". The real run goes first on a
		// private copy of the table, then the model replays with the same schedule.
		saved := append([]Conn(nil), fs.Conns...)
		realApply := apply(false)
		x.hook = func(seq int, ev *Ev) {
			if ev.Phase == "post" {
				realApply()
				posts++
			}
		}
		rr := x.run(context.Background())
		x.hook = nil
		fs.Conns = saved
		m.onPost = apply(true)
		mr := m.run()
		m.onPost = nil
		for _, d := range todo { // connects scheduled beyond the end of the run never happened: drop them on both sides
			if d.At >= posts {
				continue
			}
			if runs > 0 {
				reconn++
			}
		}
		tr := x.snapshot()[rr.Lo:rr.Hi]
		if rr.Panic != "" {
			return bad("C03:panic", "step %d: run panicked: %s", i, rr.Panic)
		}
		if got := leafOrder(tr); !intsEq(got, mr.Visited) {
			return bad("C03:sm-path", "step %d (run #%d after %d connects): nodes executed %v, table determines %v", i, runs, len(fs.Conns), got, mr.Visited)
		}
		if (rr.Err == nil) != mr.OK {
			return bad("C03:sm-outcome", "step %d: err=%v model ok=%v", i, rr.Err, mr.OK)
		}
		if p := storePath(rr.Store); !intsEq(p, mr.Path) {
			return bad("C03:sm-store", "step %d: store path %v, model %v", i, p, mr.Path)
		}
		runs++
		if runs >= 2 && reconn > 0 && len(mr.Visited) >= 3 {
			nontrivial = true
		}
	}
	cl := []string{"sm"}
	if reconn > 0 {
		cl = append(cl, "reconnect-between-runs")
	}
	return ok(nontrivial, cl...)
}

// longLoop: a flow whose table keeps it walking until the fuel (leaf visits) is used up; then
// every post answers the never-connected "halt" and the flow ends.
func longLoop(shape, kind, fuel int) WF {
	leaf := func(act ...string) NodeSpec {
		l := &LeafSpec{Kind: kind, N: 1}
		for _, a := range act {
			l.Visits = append(l.Visits, VisitScript{Exec: []Outcome{{Pay: 1}}, Action: a})
		}
		return NodeSpec{Leaf: l}
	}
	var w WF
	switch shape {
	case 0: // self-loop
		w.Nodes = []NodeSpec{leaf("a"), {Flow: &FlowSpec{Start: 0, Conns: []Conn{{0, "a", 0}}}}}
	case 1: // 2-cycle on different actions
		w.Nodes = []NodeSpec{leaf("a"), leaf("b"), {Flow: &FlowSpec{Start: 0, Conns: []Conn{{0, "a", 1}, {1, "b", 0}}}}}
	case 2: // 3 nodes, node 0 alternates between two targets that both lead back
		w.Nodes = []NodeSpec{leaf("a", "b"), leaf("a"), leaf("a"), {Flow: &FlowSpec{Start: 0, Conns: []Conn{{0, "a", 1}, {0, "b", 2}, {1, "a", 0}, {2, "a", 0}}}}}
	default: // the loop lives in an inner flow; the outer flow loops over the inner flow as well
		w.Nodes = []NodeSpec{leaf("a", "a", "out"), leaf("b"),
			{Flow: &FlowSpec{Start: 0, Conns: []Conn{{0, "a", 0}}}},
			{Flow: &FlowSpec{Start: 2, Conns: []Conn{{2, "out", 1}, {1, "b", 2}}}}}
	}
	w.Root = len(w.Nodes) - 1
	w.Fuel = fuel
	return w
}

// shortInts prints a long node sequence as its head, its tail and its length.
func shortInts(v []int) string {
	if len(v) <= 48 {
		return fmt.Sprint(v)
	}
	return fmt.Sprintf("%v ... %v (%d nodes)", v[:24], v[len(v)-8:], len(v))
}

func TestC03(t *testing.T) {
	r := newRun(t, "C03")
	defer r.finish()
	n2 := enumC03(2, 8, r.mine, func(w WF) { evalCase(r, "enum-2nodes", w, checkC03) })
	r.exhaustive(fmt.Sprintf("flat flows with 2 nodes x 2 actions, every entry in {unconnected,nil,n0,n1}, every start, cyclic action scripts of length<=2, every edge overwritten once: %d cases", n2))
	if r.thorough() {
		n3 := enumC03(3, 8, r.mine, func(w WF) { evalCase(r, "enum-3nodes", w, checkC03) })
		r.exhaustive(fmt.Sprintf("flat flows with 3 nodes x 2 actions, every entry in {unconnected,nil,n0,n1,n2}, every start, cyclic action scripts of length<=2: %d cases", n3))
	} else {
		// sample the 3-node space: every 211th case
		i := 0
		enumC03(3, 8, func(idx int) bool { return idx%211 == r.env.shard }, func(w WF) { i++; evalCase(r, "sample-3nodes", w, checkC03) })
		r.note("3-node space sampled with stride 211: %d cases in this shard", i)
	}
	g := wfGen{MaxLeaves: 12, MaxFlows: 3, Actions: prefixActions, MaxN: 1, MaxVisits: 4, FuelMax: 30, MaxRuns: 3, PBatch: 100}
	rapidPart(r, "rand-nested", r.pick(4000, 60000), g.gen, checkC03)
	// Long walks: cycles and self-loops that the table and the scripts make run hundreds or
	// thousands of times before the exit action comes (the statement bounds no path length: a
	// flow ends exactly when the pair has no connection, never because it has run "too long").
	laps := []int{300, 1000, 4000}
	if r.thorough() {
		laps = append(laps, 20000, 100000)
	}
	k := 0
	for _, fuel := range laps {
		for shape := 0; shape < 4; shape++ {
			for kind := 0; kind < numKinds; kind++ {
				if r.mine(k) {
					evalCase(r, "long-loops", longLoop(shape, kind, fuel), checkC03)
				}
				k++
			}
		}
	}
	r.note("long-loops: %d flows (self-loop, 2-cycle, 3-cycle with a shared target, loop inside a nested flow) x every leaf kind, walked for %v node visits before the exit action", k, laps)
	// Two different nodes living at one address (a struct and its first field, LeafSpec.TwinOf)
	// and flows that contain themselves are supported by the executor but NOT generated: node
	// identity by address and rejecting recursive nesting are both legitimate designs.
	rapidPart(r, "state-machine", r.pick(1500, 20000), genC03SM, checkC03SM)
}

func init() {
	registerReplay("C03", checkC03)
	registerReplaySub("C03", "state-machine", checkC03SM)
}

// FuzzC03: coverage-guided search over flow graphs and action scripts (thorough tier).
func FuzzC03(f *testing.F) {
	f.Add([]byte{0})
	f.Add([]byte("cycle-nil-overwrite"))
	g := wfGen{MaxLeaves: 8, MaxFlows: 3, Actions: prefixActions, MaxN: 1, MaxVisits: 4, FuelMax: 24, MaxRuns: 3}
	f.Fuzz(rapid.MakeFuzz(func(rt *rapid.T) {
		sc := g.gen(rt)
		if v := checkC03(nil, sc); v.Violation != "" {
			writeFuzzReplay("C03", sc, v)
			rt.Fatalf("VIOLATION C03: %s", v.Violation)
		}
	}))
}
