package harness

import (
	"reflect"
	"context"
	"errors"
	"fmt"
	"sync"
	"testing"
	"testing/synctest"
	"time"

	"github.com/mark3labs/flyt"
	"pgregory.net/rapid"
)

// C19 — configuration styles are equivalent; defaults and last-setting-wins hold.

type Setting struct {
	Param string `json:"param"` // retries | wait | conc | mode | prep | exec | post | fb
	Val   int    `json:"val"`   // index into the parameter's 3-value domain / function instance
	Form  string `json:"form"`  // opt | builder | late
}

type C19Case struct {
	Batch    bool      `json:"batch"`
	Settings []Setting `json:"settings"`
}

var (
	c19Retries = []int{1, 2, 4}
	c19Waits   = []time.Duration{0, 10*time.Millisecond + 500*time.Microsecond + time.Nanosecond, time.Hour} // the middle value is not a whole number of ms or us: a form that rounds it differs from one that does not
	c19Conc    = []int{0, 1, 3}
	c19Modes   = []bool{true, false, true} // continueOnError
)

type c19Config struct {
	retries, wait, conc, mode int // indices; -1 = never set
	prep, exec, post, fb     int
}

// fold computes the expected configuration: constructor options first (argument order),
// then builder methods / late options in call order; last setting of each parameter wins.
func (c *C19Case) fold() c19Config {
	cfg := c19Config{-1, -1, -1, -1, -1, -1, -1, -1}
	apply := func(s Setting) {
		switch s.Param {
		case "retries":
			cfg.retries = s.Val
		case "wait":
			cfg.wait = s.Val
		case "conc":
			cfg.conc = s.Val
		case "mode":
			cfg.mode = s.Val
		case "prep":
			cfg.prep = s.Val
		case "exec":
			cfg.exec = s.Val
		case "post":
			cfg.post = s.Val
		case "fb":
			cfg.fb = s.Val
		}
	}
	for _, s := range c.Settings {
		if s.Form == "opt" {
			apply(s)
		}
	}
	for _, s := range c.Settings {
		if s.Form != "opt" {
			apply(s)
		}
	}
	return cfg
}

// canonical returns one setting per configured parameter, all in the given form.
func (cfg c19Config) canonical(form string, batch bool) []Setting {
	var out []Setting
	add := func(p string, v int) {
		if v >= 0 {
			f := form
			if batch && form == "opt" && (p == "prep" || p == "exec" || p == "post") {
				f = "builder" // NewBatchNode has no option form for its functions
			}
			out = append(out, Setting{Param: p, Val: v, Form: f})
		}
	}
	add("post", cfg.post)
	add("conc", cfg.conc)
	add("retries", cfg.retries)
	add("exec", cfg.exec)
	add("mode", cfg.mode)
	add("fb", cfg.fb)
	add("wait", cfg.wait)
	add("prep", cfg.prep)
	return out
}

// c19Obs is everything observable about a configured node.
type c19Obs struct {
	Retries   int
	Wait      time.Duration
	Conc      int
	Mode      string
	PrepID    int
	ExecID    int
	PostID    int
	FbID      int
	Attempts  int           // exec attempts of the always-failing item / node
	Gap       time.Duration // virtual time between attempt 0's end and attempt 1's start
	Inflight  int           // batch: exec callbacks in flight at the first quiescent point
	Executed  int           // batch: distinct items whose exec ran
	Action    string
	ErrNil    bool
	BuildNote string
}

type c19Probe struct {
	mu       sync.Mutex
	obs      c19Obs
	gate     chan struct{}
	inflight int
	seen     map[int]bool
	lastEnd  time.Time
	gapSet   bool
}

func (p *c19Probe) prepR(id int) func(context.Context, *flyt.SharedStore) (flyt.Result, error) {
	return func(ctx context.Context, s *flyt.SharedStore) (flyt.Result, error) {
		p.mu.Lock()
		p.obs.PrepID = id
		p.mu.Unlock()
		return flyt.NewResult("prep"), nil
	}
}

func (p *c19Probe) prepA(id int) func(context.Context, *flyt.SharedStore) (any, error) {
	return func(ctx context.Context, s *flyt.SharedStore) (any, error) {
		p.mu.Lock()
		p.obs.PrepID = id
		p.mu.Unlock()
		return "prep", nil
	}
}

func (p *c19Probe) postA(id int) func(context.Context, *flyt.SharedStore, any, any) (flyt.Action, error) {
	return func(ctx context.Context, s *flyt.SharedStore, a, b any) (flyt.Action, error) {
		p.mu.Lock()
		p.obs.PostID = id
		p.mu.Unlock()
		return flyt.Action(fmt.Sprintf("post%d", id)), nil
	}
}

func (p *c19Probe) prepBatch(id int) func(context.Context, *flyt.SharedStore) ([]flyt.Result, error) {
	return func(ctx context.Context, s *flyt.SharedStore) ([]flyt.Result, error) {
		p.mu.Lock()
		p.obs.PrepID = id
		p.mu.Unlock()
		out := make([]flyt.Result, 6)
		for i := range out {
			out[i] = flyt.NewResult(i)
		}
		return out, nil
	}
}

// exec body shared by all styles: the single node (item -1) and batch item 1 always fail.
func (p *c19Probe) execBody(id int, item int, gated bool) error {
	p.mu.Lock()
	p.obs.ExecID = id
	failing := item == 1 || item == -1
	if failing {
		if p.obs.Attempts == 1 && !p.gapSet {
			p.obs.Gap = time.Since(p.lastEnd)
			p.gapSet = true
		}
		p.obs.Attempts++
	}
	if !p.seen[item] {
		p.seen[item] = true
		p.obs.Executed++
	}
	p.inflight++
	p.mu.Unlock()
	if gated {
		gateWait(p.gate)
	}
	p.mu.Lock()
	p.inflight--
	if failing {
		p.lastEnd = time.Now()
	}
	p.mu.Unlock()
	if failing {
		return errors.New("probe failure")
	}
	return nil
}

func (p *c19Probe) execR(id int, batch bool) func(context.Context, flyt.Result) (flyt.Result, error) {
	return func(ctx context.Context, r flyt.Result) (flyt.Result, error) {
		item := -1
		if batch {
			item, _ = r.Value().(int)
		}
		if err := p.execBody(id, item, batch); err != nil {
			return flyt.Result{}, err
		}
		return flyt.NewResult("ok"), nil
	}
}

func (p *c19Probe) execA(id int, batch bool) func(context.Context, any) (any, error) {
	return func(ctx context.Context, v any) (any, error) {
		item := -1
		if batch {
			item, _ = v.(int)
		}
		if err := p.execBody(id, item, batch); err != nil {
			return nil, err
		}
		return "ok", nil
	}
}

func (p *c19Probe) postR(id int) func(context.Context, *flyt.SharedStore, flyt.Result, flyt.Result) (flyt.Action, error) {
	return func(ctx context.Context, s *flyt.SharedStore, a, b flyt.Result) (flyt.Action, error) {
		p.mu.Lock()
		p.obs.PostID = id
		p.mu.Unlock()
		return flyt.Action(fmt.Sprintf("post%d", id)), nil
	}
}

func (p *c19Probe) postBatch(id int) func(context.Context, *flyt.SharedStore, []flyt.Result, []flyt.Result) (flyt.Action, error) {
	return func(ctx context.Context, s *flyt.SharedStore, a, b []flyt.Result) (flyt.Action, error) {
		p.mu.Lock()
		p.obs.PostID = id
		p.mu.Unlock()
		return flyt.Action(fmt.Sprintf("post%d", id)), nil
	}
}

func (p *c19Probe) fb(id int) func(any, error) (any, error) {
	return func(v any, err error) (any, error) {
		p.mu.Lock()
		p.obs.FbID = id
		p.mu.Unlock()
		return "fallback", nil
	}
}

// realise builds a node from a settings sequence and probes it. Must run in a bubble.
func c19Realise(batch bool, settings []Setting) c19Obs {
	p := &c19Probe{gate: make(chan struct{}), seen: map[int]bool{}}
	p.obs = c19Obs{PrepID: -1, ExecID: -1, PostID: -1, FbID: -1}
	baseOpt := func(s Setting) any {
		switch s.Param {
		case "retries":
			return flyt.WithMaxRetries(c19Retries[s.Val])
		case "wait":
			return flyt.WithWait(c19Waits[s.Val])
		case "conc":
			return flyt.WithBatchConcurrency(c19Conc[s.Val])
		case "mode":
			return flyt.WithBatchErrorHandling(c19Modes[s.Val])
		}
		return nil
	}
	var node flyt.Node
	var base interface {
		GetMaxRetries() int
		GetWait() time.Duration
	}
	if !batch {
		var opts []any
		// a batch setting the plain builder of this implementation has no method for exists as an option only
		optOnly := func(s Setting) bool {
			return (s.Param == "conc" && !plainBuilderHas("WithBatchConcurrency")) || (s.Param == "mode" && !plainBuilderHas("WithBatchErrorHandling"))
		}
		for _, s := range settings {
			if s.Form != "opt" && !optOnly(s) {
				continue
			}
			if o := baseOpt(s); o != nil {
				opts = append(opts, o)
				continue
			}
			switch s.Param {
			case "prep":
				if s.Val == 2 {
					opts = append(opts, flyt.WithPrepFuncAny(p.prepA(s.Val)))
				} else {
					opts = append(opts, flyt.WithPrepFunc(p.prepR(s.Val)))
				}
			case "exec":
				if s.Val == 2 {
					opts = append(opts, flyt.WithExecFuncAny(p.execA(s.Val, false)))
				} else {
					opts = append(opts, flyt.WithExecFunc(p.execR(s.Val, false)))
				}
			case "post":
				if s.Val == 2 {
					opts = append(opts, flyt.WithPostFuncAny(p.postA(s.Val)))
				} else {
					opts = append(opts, flyt.WithPostFunc(p.postR(s.Val)))
				}
			case "fb":
				opts = append(opts, flyt.WithExecFallbackFunc(p.fb(s.Val)))
			}
		}
		b := newNode(opts)
		for _, s := range settings {
			if s.Form == "opt" || optOnly(s) {
				continue
			}
			if s.Form == "late" {
				// (not generated any more; see checkC19: "late" is normalised to the builder form)
			}
			switch s.Param {
			case "retries":
				b = b.WithMaxRetries(c19Retries[s.Val])
			case "wait":
				b = b.WithWait(c19Waits[s.Val])
			case "conc":
				b, _ = callBuilder(b, "WithBatchConcurrency", c19Conc[s.Val])
			case "mode":
				b, _ = callBuilder(b, "WithBatchErrorHandling", c19Modes[s.Val])
			case "prep":
				if s.Val == 2 {
					b = b.WithPrepFuncAny(p.prepA(s.Val))
				} else {
					b = b.WithPrepFunc(p.prepR(s.Val))
				}
			case "exec":
				if s.Val == 2 {
					b = b.WithExecFuncAny(p.execA(s.Val, false))
				} else {
					b = b.WithExecFunc(p.execR(s.Val, false))
				}
			case "post":
				if s.Val == 2 {
					b = b.WithPostFuncAny(p.postA(s.Val))
				} else {
					b = b.WithPostFunc(p.postR(s.Val))
				}
			case "fb":
				b = b.WithExecFallbackFunc(p.fb(s.Val))
			}
		}
		node, base = b, b
	} else {
		var opts []any
		for _, s := range settings {
			if s.Form != "opt" {
				continue
			}
			if o := baseOpt(s); o != nil {
				opts = append(opts, o)
			}
		}
		b := newBatchNode(opts)
		for _, s := range settings {
			if s.Form == "opt" && baseOpt(s) != nil {
				continue
			}
			if s.Form == "late" {
				// (not generated any more; see checkC19: "late" is normalised to the builder form)
			}
			switch s.Param {
			case "retries":
				b = b.WithMaxRetries(c19Retries[s.Val])
			case "wait":
				b = b.WithWait(c19Waits[s.Val])
			case "conc":
				b = b.WithBatchConcurrency(c19Conc[s.Val])
			case "mode":
				b = b.WithBatchErrorHandling(c19Modes[s.Val])
			case "prep":
				b = b.WithPrepFunc(p.prepBatch(s.Val))
			case "exec":
				if s.Val == 2 {
					b = b.WithExecFuncAny(p.execA(s.Val, true))
				} else {
					b = b.WithExecFunc(p.execR(s.Val, true))
				}
			case "post":
				b = b.WithPostFunc(p.postBatch(s.Val))
			}
		}
		node, base = b, b
	}
	p.obs.Retries, p.obs.Wait = base.GetMaxRetries(), base.GetWait()
	// batch settings need not be readable on every builder: a missing getter is marked and not compared
	var okc, okm bool
	if p.obs.Conc, okc = intGetter(node, "GetBatchConcurrency"); !okc {
		p.obs.Conc = c19NoGetter
	}
	if p.obs.Mode, okm = strGetter(node, "GetBatchErrorHandling"); !okm {
		p.obs.Mode = "(no getter)"
	}
	// probe run
	done := make(chan struct{})
	go func() {
		defer close(done)
		act, err := flyt.Run(context.Background(), node, flyt.NewSharedStore())
		p.mu.Lock()
		p.obs.Action, p.obs.ErrNil = string(act), err == nil
		p.mu.Unlock()
	}()
	if batch {
		synctest.Wait()
		p.mu.Lock()
		p.obs.Inflight = p.inflight
		p.mu.Unlock()
		close(p.gate) // from now on nothing blocks
	}
	<-done
	return p.obs
}

// c19ModeNames: the strings GetBatchErrorHandling uses for "continue" (the documented default)
// and "stop" are read from the implementation itself; only their distinctness is required.
func c19ModeNames() (string, string) {
	return fmt.Sprint(flyt.NewBatchNode().GetBatchErrorHandling()), fmt.Sprint(flyt.NewBatchNode(flyt.WithBatchErrorHandling(false)).GetBatchErrorHandling())
}

func c19Expected(cfg c19Config, batch bool) c19Obs {
	modeContinue, modeStop := c19ModeNames()
	e := c19Obs{Retries: 1, Wait: 0, Conc: 0, Mode: modeContinue, PrepID: cfg.prep, ExecID: cfg.exec, PostID: cfg.post, FbID: -1}
	if cfg.retries >= 0 {
		e.Retries = c19Retries[cfg.retries]
	}
	if cfg.wait >= 0 {
		e.Wait = c19Waits[cfg.wait]
	}
	if cfg.conc >= 0 {
		e.Conc = c19Conc[cfg.conc]
	}
	if cfg.mode >= 0 && !c19Modes[cfg.mode] {
		e.Mode = modeStop
	}
	if !batch {
		if cfg.exec >= 0 {
			e.Attempts = e.Retries
			if e.Retries > 1 {
				e.Gap = e.Wait
			}
			e.Executed = 1
			if cfg.fb >= 0 {
				e.FbID = cfg.fb
			}
		}
		succeeded := cfg.exec < 0 || cfg.fb >= 0
		e.ErrNil = succeeded
		if succeeded {
			e.Action = "default"
			if cfg.post >= 0 {
				e.Action = fmt.Sprintf("post%d", cfg.post)
			}
		} else {
			e.PostID = -1
		}
		return e
	}
	// batch: 6 items when a prep is configured, item 1 always fails when an exec is configured
	e.ErrNil = true
	e.Action = "default"
	if cfg.post >= 0 {
		e.Action = fmt.Sprintf("post%d", cfg.post)
	}
	if cfg.prep < 0 {
		e.ExecID = -1
		return e
	}
	if cfg.exec < 0 {
		return e
	}
	e.Attempts = e.Retries
	if e.Retries > 1 {
		e.Gap = e.Wait
	}
	switch {
	case e.Conc == 0:
		e.Inflight = 1
		e.Executed = 6
		if e.Mode == modeStop {
			e.Executed = 2
		}
	default:
		e.Inflight = min(e.Conc, 6)
		e.Executed = -1 // schedule dependent in stop mode: not compared
		if e.Mode == modeContinue {
			e.Executed = 6
		}
	}
	return e
}

func c19Diff(got, want c19Obs, what string) string {
	cmp := func(name string, a, b any) string {
		if a != b {
			return fmt.Sprintf("%s: %s is %v, want %v", what, name, a, b)
		}
		return ""
	}
	for _, m := range []string{
		cmp("GetMaxRetries", got.Retries, want.Retries), cmp("GetWait", got.Wait, want.Wait),
		cmp("GetBatchConcurrency", got.Conc, want.Conc), cmp("GetBatchErrorHandling", got.Mode, want.Mode),
		cmp("prep function called", got.PrepID, want.PrepID), cmp("exec function called", got.ExecID, want.ExecID),
		cmp("post function called", got.PostID, want.PostID), cmp("fallback function called", got.FbID, want.FbID),
		cmp("exec attempts of the failing item", got.Attempts, want.Attempts),
		cmp("in-flight at first quiescent point", got.Inflight, want.Inflight),
		cmp("action", got.Action, want.Action), cmp("success", got.ErrNil, want.ErrNil),
	} {
		if m != "" {
			return m
		}
	}
	if got.Gap < want.Gap {
		return fmt.Sprintf("%s: wait between attempts is %v, configured %v", what, got.Gap, want.Gap)
	}
	if want.Executed >= 0 && got.Executed != want.Executed {
		return fmt.Sprintf("%s: %d items executed, want %d", what, got.Executed, want.Executed)
	}
	return ""
}

const c19NoGetter = -999

func plainBuilderHas(method string) bool {
	return reflect.ValueOf(flyt.NewNode()).MethodByName(method).IsValid()
}

func checkC19(t *testing.T, c C19Case) Verdict {
	// normalise: batch nodes have no option form for functions and no fallback builder
	var settings []Setting
	for _, s := range c.Settings {
		if c.Batch {
			if s.Param == "fb" {
				continue
			}
			if (s.Param == "prep" || s.Param == "exec" || s.Param == "post") && s.Form != "builder" {
				s.Form = "builder"
			}
		}
		if !c.Batch && s.Form != "opt" && (s.Param == "conc" && !plainBuilderHas("WithBatchConcurrency") || s.Param == "mode" && !plainBuilderHas("WithBatchErrorHandling")) {
			s.Form = "opt" // the plain builder of this implementation has no such method: only the option exists
		}
		if s.Form == "late" {
			// "late" (an option applied to the embedded BaseNode after construction) is a third style
			// the statement does not name; scenarios that carry it are run in builder form
			s.Form = "builder"
		}
		settings = append(settings, s)
	}
	if a, b := c19ModeNames(); a == b {
		return bad("C19:modes-indistinct", "GetBatchErrorHandling reports %q both for continue-on-error and for stop-on-error", a)
	}
	cc := C19Case{Batch: c.Batch, Settings: settings}
	cfg := cc.fold()
	want := c19Expected(cfg, c.Batch)
	var given, allOpt, allBuilder c19Obs
	if f := Bubble(t, func() {
		given = c19Realise(c.Batch, settings)
		allOpt = c19Realise(c.Batch, cfg.canonical("opt", c.Batch))
		allBuilder = c19Realise(c.Batch, cfg.canonical("builder", c.Batch))
	}); f != "" && !goroutinesRemain(f) {
		return bad("C19:bubble", "%s", f)
	}
	if given.Conc == c19NoGetter {
		want.Conc, allOpt.Conc, allBuilder.Conc = c19NoGetter, c19NoGetter, c19NoGetter
	}
	if given.Mode == "(no getter)" {
		want.Mode, allOpt.Mode, allBuilder.Mode = given.Mode, given.Mode, given.Mode
	}
	if !c.Batch && cfg.exec < 0 {
		// whether a function-style node without an exec function is runnable is not C19's clause
		want.Action, want.ErrNil, want.PrepID, want.PostID, want.FbID = given.Action, given.ErrNil, given.PrepID, given.PostID, given.FbID
	}
	if c.Batch && want.Conc > 0 && given.Inflight >= 1 && given.Inflight <= want.Inflight {
		// "never more than c" is asserted absolutely; how many of the c executions have already
		// started at the first quiescent point is C08's clause (workers may be started lazily) -
		// the three realisations must agree
		want.Inflight = given.Inflight
	}
	if c.Batch {
		// Whether a batch run with a failed item (the probe's item 1 always fails), or a batch node
		// without a prep function, reports success is not C19's clause: action and success are only
		// required to agree between the three realisations.
		want.Action, want.ErrNil = given.Action, given.ErrNil
		if cfg.prep < 0 {
			want.PostID = given.PostID
		}
		if cfg.exec < 0 {
			// ... nor whether a batch node without an exec function is runnable at all
			want.PrepID, want.PostID, want.Executed = given.PrepID, given.PostID, given.Executed
		}
	}
	if m := c19Diff(given, want, "sequence as given"); m != "" {
		return bad("C19:last-wins", "%s (settings %+v)", m, settings)
	}
	if m := c19Diff(allOpt, want, "all-option realisation"); m != "" {
		return bad("C19:option-style", "%s (config %+v)", m, cfg)
	}
	if m := c19Diff(allBuilder, want, "all-builder realisation"); m != "" {
		return bad("C19:builder-style", "%s (config %+v)", m, cfg)
	}
	forms := map[string]bool{}
	overwrite := false
	seen := map[string]bool{}
	for _, s := range settings {
		forms[s.Form] = true
		if seen[s.Param] {
			overwrite = true
		}
		seen[s.Param] = true
	}
	cl := []string{map[bool]string{true: "batch", false: "plain"}[c.Batch]}
	if len(forms) >= 2 {
		cl = append(cl, "mixed-forms")
	}
	if overwrite {
		cl = append(cl, "overwrites")
	}
	if len(settings) == 0 {
		cl = append(cl, "defaults-only")
	}
	return ok(len(forms) >= 2 || overwrite, cl...)
}

var c19Params = []string{"retries", "wait", "conc", "mode", "prep", "exec", "post", "fb"}

func genC19(rt *rapid.T) C19Case {
	c := C19Case{Batch: rapid.Bool().Draw(rt, "batch")}
	n := rapid.IntRange(0, 6).Draw(rt, "n")
	for i := 0; i < n; i++ {
		c.Settings = append(c.Settings, Setting{
			Param: c19Params[uniform(rt, len(c19Params), "param")],
			Val:   uniform(rt, 3, "val"),
			Form:  []string{"opt", "builder"}[uniform(rt, 2, "form")],
		})
	}
	// make sure the probe can observe behaviour most of the time
	if rapid.IntRange(0, 3).Draw(rt, "withfuncs") > 0 {
		c.Settings = append(c.Settings, Setting{Param: "prep", Val: uniform(rt, 3, "pv"), Form: "builder"}, Setting{Param: "exec", Val: uniform(rt, 3, "ev"), Form: "builder"})
	}
	return c
}

// enumC19: every sequence of length <= L over {retries, wait, conc, mode} x 3 values x 3 forms,
// followed by fixed prep/exec functions so that behaviour is observable.
func enumC19(L int, mine func(int) bool, visit func(C19Case)) int {
	params := []string{"retries", "wait", "conc", "mode"}
	forms := []string{"opt", "builder"}
	var alphabet []Setting
	for _, p := range params {
		for v := 0; v < 3; v++ {
			for _, f := range forms {
				alphabet = append(alphabet, Setting{p, v, f})
			}
		}
	}
	count := 0
	var rec func(prefix []Setting, depth int)
	rec = func(prefix []Setting, depth int) {
		for _, batch := range []bool{false, true} {
			if mine(count) {
				s := append(append([]Setting(nil), prefix...), Setting{"prep", count % 3, "builder"}, Setting{"exec", (count / 3) % 3, "builder"})
				visit(C19Case{Batch: batch, Settings: s})
			}
			count++
		}
		if depth == L {
			return
		}
		for _, a := range alphabet {
			rec(append(prefix, a), depth+1)
		}
	}
	rec(nil, 0)
	return count
}

func TestC19(t *testing.T) {
	r := newRun(t, "C19")
	defer r.finish()
	L := r.pick(3, 5)
	n := enumC19(L, r.mine, func(c C19Case) { evalCase(r, "enum-sequences", c, checkC19) })
	r.exhaustive(fmt.Sprintf("every sequence of up to %d settings over {max retries, wait, batch concurrency, batch error handling} x 3 values x {constructor option, builder method}, for NewNode and NewBatchNode: %d cases, each compared with its all-option and all-builder realisation", L, n))
	rapidPart(r, "rand-sequences", r.pick(3000, 120000), genC19, checkC19)
	// "a pool size <= 0 means one worker"
	for i, size := range []int{0, -1, -7} {
		if r.mine(i) {
			sc := PoolSc{Size: size, Rounds: []PoolRound{{Submitters: []int{7}}}, Gated: true, Sched: []int{0, 1, 0}}
			evalCase(r, "pool-default-size", sc, checkPool("C19"))
		}
	}
}

func init() {
	registerReplay("C19", checkC19)
	registerReplaySub("C19", "pool-default-size", checkPool("C19"))
}
