package harness

import (
	"context"
	"fmt"
	"testing"

	"github.com/mark3labs/flyt"
	"pgregory.net/rapid"
)

// C17 — function-style nodes pass values between phases unchanged; Result and Any styles
// are interchangeable.

type C17Case struct {
	WF WF `json:"wf"`
	// Twin[i] is xor-ed into the style bits of leaf i to obtain the twin scenario
	// (prep/exec/post style flipped, construction style flipped).
	Twin []int `json:"twin"`
}

func c17Judge(sc *WF, tr []Ev) (fp, msg string) {
	for _, seg := range segments(tr) {
		l := sc.Nodes[seg[0].Leaf].Leaf
		if l.Kind != KFunc || seg[0].Phase != "prep" || seg[0].RetErr != nil {
			continue
		}
		name := fmt.Sprintf("L%d.v%d(style=%05b)", seg[0].Leaf, seg[0].Visit, l.Style)
		prep := seg[0]
		var lastRes, needPost *Ev
		for i := 1; i < len(seg); i++ {
			e := &seg[i]
			// "the result the exec function returns - ... its error state when it is an error result -
			// is what the post function receives": an error Result returned with a nil Go error is
			// the exec outcome, so the next thing that happens to this node is its post function
			if needPost != nil && e.Phase == "fb" {
				needPost = nil // (retrying, or consulting a fallback, after an error Result is left open)
			}
			if needPost != nil && e.Phase != "post" && e.Phase != "exec" {
				return "C17:error-result-not-delivered", fmt.Sprintf("%s: exec returned an error Result (nil error) carrying %q; instead of handing it to the post function the node went on with %s", name, needPost.RetResErr, e)
			}
			switch e.Phase {
			case "exec":
				if !samePayload(e.In, prep.Ret) {
					return "C17:prep-to-exec", fmt.Sprintf("%s: exec function received %#v, prep function returned %#v", name, e.In, prep.Ret)
				}
				if e.InIsErr {
					return "C17:prep-to-exec-err", fmt.Sprintf("%s: exec function received an error Result for a successful prep", name)
				}
				if _, w := e.In.(flyt.Result); w {
					return "C17:prep-wrapped-twice", fmt.Sprintf("%s: exec function received a Result wrapped in a Result", name)
				}
				lastRes = e
				needPost = nil // (an earlier error Result that was retried is superseded by this attempt)
				if e.RetResErr != nil && e.RetErr == nil {
					needPost = e
				}
			case "fb":
				lastRes = e
			case "post":
				needPost = nil
				if !samePayload(e.In, prep.Ret) {
					return "C17:prep-to-post", fmt.Sprintf("%s: post function received prep value %#v, prep function returned %#v", name, e.In, prep.Ret)
				}
				if lastRes == nil {
					continue
				}
				postAny := l.Style&SPostAny != 0
				if lastRes.RetResErr != nil {
					// exec returned an error Result (with nil error)
					if !postAny {
						if e.In2Wrap {
							return "C17:error-result-wrapped-twice", fmt.Sprintf("%s: exec returned an error Result; the post function received it wrapped a second time (IsError()=%v, Value() is a flyt.Result)", name, e.InIsErr)
						}
						if !e.InIsErr || e.In2Err == nil || !chainHas(e.In2Err, lastRes.RetResErr) {
							return "C17:error-result-stripped", fmt.Sprintf("%s: exec returned an error Result carrying %q; post received IsError()=%v Error()=%v", name, lastRes.RetResErr, e.InIsErr, e.In2Err)
						}
					} else if e.In2 != nil {
						// Any renderings of an error Result: nil (today), the Result itself, or the bare error
						good := false
						if r, isRes := e.In2.(flyt.Result); isRes {
							good = r.IsError() && r.Error() != nil && chainHas(r.Error(), lastRes.RetResErr)
						} else if er, isErr := e.In2.(error); isErr {
							good = chainHas(er, lastRes.RetResErr)
						}
						if !good {
							return "C17:error-result-any-post", fmt.Sprintf("%s: exec returned an error Result; Any-style post received %#v (want nil, the Result carrying that error, or the error)", name, e.In2)
						}
					}
					continue
				}
				if e.In2Wrap {
					return "C17:value-wrapped-twice", fmt.Sprintf("%s: post received a Result wrapped in a Result", name)
				}
				if e.InIsErr {
					return "C17:value-as-error", fmt.Sprintf("%s: post received an error Result for a successful exec", name)
				}
				if !samePayload(e.In2, lastRes.Ret) {
					return "C17:exec-to-post", fmt.Sprintf("%s: post function received %#v, the exec phase produced %#v", name, e.In2, lastRes.Ret)
				}
			}
		}
		if needPost != nil {
			return "C17:error-result-not-delivered", fmt.Sprintf("%s: exec returned an error Result (nil error) carrying %q, but the post function was never called with it: %v", name, needPost.RetResErr, traceStrings(seg))
		}
	}
	return "", ""
}

func (c *C17Case) twin() WF {
	w := c.WF
	w.Nodes = append([]NodeSpec(nil), c.WF.Nodes...)
	for i, ns := range w.Nodes {
		if ns.Leaf == nil || ns.Leaf.Kind != KFunc {
			continue
		}
		l := *ns.Leaf
		mask := 0
		if i < len(c.Twin) {
			mask = c.Twin[i]
		}
		// flipping the exec style would change what an Err-6 script means; keep it when used
		for _, v := range l.Visits {
			for _, o := range v.Exec {
				if o.Err == 6 {
					mask &^= SExecAny
				}
			}
		}
		l.Style ^= mask & (SPrepAny | SExecAny | SPostAny | SBuilder)
		w.Nodes[i] = NodeSpec{Leaf: &l}
	}
	return w
}

func c17Body(c *C17Case) Verdict {
	sc := &c.WF
	tw := c.twin()
	x, y := newWfExec(sc), newWfExec(&tw)
	nontrivial := false
	classes := map[string]bool{}
	for r := 0; r < sc.runs(); r++ {
		rx := x.run(context.Background())
		ry := y.run(context.Background())
		if runaway(rx.Panic) || runaway(ry.Panic) {
			return ok(false, "scenario-did-not-terminate") // C03/C10 territory, see runaway()
		}
		if rx.Panic != "" || ry.Panic != "" {
			return bad("C17:panic", "panic: %q / twin %q", rx.Panic, ry.Panic)
		}
		tx, ty := x.snapshot()[rx.Lo:rx.Hi], y.snapshot()[ry.Lo:ry.Hi]
		if fp, msg := c17Judge(sc, tx); msg != "" {
			return bad(fp, "%s", msg)
		}
		if fp, msg := c17Judge(&tw, ty); msg != "" {
			return bad(fp+":twin", "twin: %s", msg)
		}
		// interchangeability: both style assignments observe the same payloads
		if len(tx) != len(ty) {
			return bad("C17:twin-shape", "style twin ran %v, original %v", traceStrings(ty), traceStrings(tx))
		}
		for i := range tx {
			a, b := tx[i], ty[i]
			if a.Leaf != b.Leaf || a.Phase != b.Phase || a.Attempt != b.Attempt {
				return bad("C17:twin-shape", "style twin ran %v, original %v", traceStrings(ty), traceStrings(tx))
			}
			if a.Phase != "fb" && !deepEq(a.In, b.In) { // (the fallback function is no Result/Any variant; its argument is C02's clause)
				return bad("C17:twin-payload", "%s: styles observe different inputs: %#v vs %#v", a, a.In, b.In)
			}
			if a.Phase == "post" {
				// an error Result reaches a Result-style post as IsError()+Error() (Value() nil) and an
				// Any-style post as its Value(), i.e. nil: every style must observe the same payload
				// Twins with the same post style must observe exactly the same thing (option vs
				// builder construction may not differ). Across post styles an error Result has two
				// admissible renderings on the Any side (nil, or the Result carrying the error),
				// which c17Judge checks for each twin on its own.
				sameStyle := sc.Nodes[a.Leaf].Leaf.Style&SPostAny == tw.Nodes[b.Leaf].Leaf.Style&SPostAny
				errRes := false
				for _, e := range tx {
					if e.Leaf == a.Leaf && e.Visit == a.Visit && e.RetResErr != nil {
						errRes = true
					}
				}
				if (sameStyle || !errRes) && !deepEq(a.In2, b.In2) {
					return bad("C17:twin-payload", "%s: the two style assignments observe different exec results in post: %#v vs %#v (styles %05b vs %05b)", a, a.In2, b.In2, sc.Nodes[a.Leaf].Leaf.Style, tw.Nodes[b.Leaf].Leaf.Style)
				}
			}
		}
		if (rx.Err == nil) != (ry.Err == nil) {
			return bad("C17:twin-outcome", "style twin err=%v, original err=%v", ry.Err, rx.Err)
		}
		for _, e := range tx {
			l := sc.Nodes[e.Leaf].Leaf
			if l.Kind != KFunc {
				continue
			}
			st := l.Style & (SPrepAny | SExecAny | SPostAny)
			if st != 0 && st != (SPrepAny|SExecAny|SPostAny) {
				classes["mixed-styles"] = true
				nontrivial = true
			}
			if e.RetResErr != nil {
				classes["error-result"] = true
				nontrivial = true
			}
			if (e.Phase == "prep" || e.Phase == "exec") && e.Ret == nil && e.RetErr == nil {
				classes["nil-payload"] = true
				nontrivial = true
			}
		}
	}
	if sc.Nodes[sc.Root].Flow != nil {
		classes["in-flow"] = true
	} else {
		classes["single"] = true
	}
	var cl []string
	for k := range classes {
		cl = append(cl, k)
	}
	sortStrings(cl)
	return ok(nontrivial, cl...)
}

func checkC17(t *testing.T, c C17Case) Verdict {
	var v Verdict
	if f := Bubble(t, func() { v = c17Body(&c) }); f != "" && !goroutinesRemain(f) {
		return bad("C17:bubble", "%s", f)
	}
	return v
}

func genC17(flows int) func(rt *rapid.T) C17Case {
	return func(rt *rapid.T) C17Case {
		g := wfGen{MaxLeaves: 3, MaxFlows: flows, Actions: []string{"a", "", "b"}, PErr: 15, PExecErr: 200, MaxN: 3, MaxVisits: 2, FuelMax: 6, Kinds: []int{KFunc, KFunc, KFunc, KBaseFb}}
		w := g.gen(rt)
		var c C17Case
		for _, ns := range w.Nodes {
			mask := 0
			if ns.Leaf != nil {
				mask = rapid.IntRange(0, numStyles-1).Draw(rt, "twin")
				for vi := range ns.Leaf.Visits {
					for ai := range ns.Leaf.Visits[vi].Exec {
						if perMille(rt, 150, "reserr") {
							ns.Leaf.Visits[vi].Exec[ai].Err = 6
						}
					}
				}
			}
			c.Twin = append(c.Twin, mask)
		}
		c.WF = w
		return c
	}
}

// enumC17: all 8 style combinations x option/builder x fallback on/off x payload kinds x
// exec {value, Go error then value, error Result}.
func enumC17(visit func(C17Case)) int {
	n := 0
	for style := 0; style < numStyles; style++ {
		for pay := 0; pay < numPayKinds; pay++ {
			for mode := 0; mode < 3; mode++ {
				s := VisitScript{Action: "x", Prep: Outcome{Pay: pay}, Fb: Outcome{Pay: (pay + 1) % numPayKinds}}
				switch mode {
				case 0:
					s.Exec = []Outcome{{Pay: (pay + 3) % numPayKinds}}
				case 1:
					s.Exec = []Outcome{{Err: 2}, {Pay: (pay + 5) % numPayKinds}}
				case 2:
					s.Exec = []Outcome{{Err: 6}}
				}
				w := WF{Nodes: []NodeSpec{{Leaf: &LeafSpec{Kind: KFunc, Style: style, N: 2, Visits: []VisitScript{s}}}}, Fuel: 3}
				visit(C17Case{WF: w, Twin: []int{(style*7 + pay) % numStyles}})
				n++
			}
		}
	}
	return n
}

func checkC17Batch(t *testing.T, sc BatchSc) Verdict {
	sc.Mode = modeContinue(sc.Mode)
	sc.PrepErr = 0
	x, br, fail := runBatchCase(t, &sc, nil)
	if fail != "" && !goroutinesRemain(fail) {
		return bad("C17:bubble", "%s", fail)
	}
	if br.Rejected {
		return ok(false, "prep-form-rejected")
	}
	if br.Panic != "" {
		return bad("C17:panic", "%s", br.Panic)
	}
	if fp, msg := judgeItems("C17", &sc, x, br); msg != "" {
		return bad(fp, "%s", msg)
	}
	hasRes := false
	for i := 0; i < sc.n(); i++ {
		if sc.modelItem(i).ResErr {
			hasRes = true
		}
	}
	cl := []string{"batch"}
	if sc.ExecAny {
		cl = append(cl, "batch-exec-any")
	} else {
		cl = append(cl, "batch-exec-result")
	}
	if hasRes {
		cl = append(cl, "error-result")
	}
	return ok(hasRes || sc.ExecAny, cl...)
}

func TestC17(t *testing.T) {
	r := newRun(t, "C17")
	defer r.finish()
	i := 0
	n := enumC17(func(c C17Case) {
		if r.mine(i) {
			evalCase(r, "enum-styles", c, checkC17)
		}
		i++
	})
	r.exhaustive(fmt.Sprintf("all 8 Result/Any style combinations x option/builder construction x fallback on/off x %d payload kinds x exec{value, error then value, error Result}: %d cases, each also run as its style twin", numPayKinds, n))
	rapidPart(r, "rand-single", r.pick(2500, 120000), genC17(0), checkC17)
	rapidPart(r, "rand-flow", r.pick(2500, 120000), genC17(2), checkC17)
	g := batchGen{MinN: 1, MaxN: 8, MaxC: 3, Modes: []int{0, 1}, MaxBudget: 2, PFail: 200, PResErr: 250, PPreErr: 100, Fb: true, Gated: 2, MaxSched: 20}
	rapidPart(r, "batch-exec", r.pick(1500, 25000), g.gen, checkC17Batch)
}

func init() {
	registerReplay("C17", checkC17)
	registerReplaySub("C17", "batch-exec", checkC17Batch)
}
