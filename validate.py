#!/usr/bin/env python3
"""Validate MANIFEST.json and evidence/*.json against the schemas (uses the tooling venv's jsonschema)."""
import json, sys, glob
import jsonschema
ok = True
ms = json.load(open('/root/.vp/MANIFEST.schema.json'))
es = json.load(open('/root/.vp/EVIDENCE.schema.json'))
try:
    jsonschema.validate(json.load(open('MANIFEST.json')), ms); print('MANIFEST ok')
except Exception as e:
    ok = False; print('MANIFEST INVALID', str(e)[:500])
for f in sorted(glob.glob('evidence/*.json')):
    try:
        jsonschema.validate(json.load(open(f)), es); print(f, 'ok')
    except Exception as e:
        ok = False; print(f, 'INVALID', str(e)[:500])
sys.exit(0 if ok else 1)
