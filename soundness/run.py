#!/usr/bin/env python3
"""Soundness protocol: every alternative implementation of soundness/alts.py must leave the listed
checks SILENT (exit 0). Mirrors mutants/run.py.   python3 soundness/run.py [-j N] [ids]  -> soundness/RESULTS.md"""
import glob, os, shutil, subprocess, sys, time
from concurrent.futures import ThreadPoolExecutor
HERE = os.path.dirname(os.path.abspath(__file__)); ROOT = os.path.dirname(HERE)
sys.path.insert(0, HERE); sys.path.insert(0, os.path.join(ROOT, "mutants"))
from alts import ALTS  # noqa
from run import purge_scratch  # noqa  (mutants/run.py)
ENV = dict(os.environ, GOFLAGS="-mod=mod", GOPROXY="off", GOSUMDB="off", GOTOOLCHAIN="local")


def one(m):
    d = f"/tmp/alt/{m['id']}"
    shutil.rmtree(d, ignore_errors=True); os.makedirs(d)
    for f in glob.glob("/repo/*.go") + ["/repo/go.mod"]:
        shutil.copy(f, d)
    res = dict(id=m["id"], why=m["why"], suite=None, checks={}, allow=m.get("allow", [0]))
    try:
        for (fn, old, new) in m["edits"]:
            p = os.path.join(d, fn); s = open(p).read() if os.path.exists(p) else ""
            if old in ("__POOL__", "__STORE__"):
                import alts_c
                x, y = (alts_c.pool_region if old == "__POOL__" else alts_c.store_region)(s)
                open(p, "w").write(s[:x] + new + "\n" + s[y:]); continue
            if old is None:  # whole-file replacement
                open(p, "w").write(new); continue
            if isinstance(old, tuple):
                x, y = old
                if y == "\x00EOF":
                    s = s + y
                if s.count(x) != 1 or s.count(y) < 1:
                    res["suite"] = f"EDIT-ERROR: region markers occur {s.count(x)}x/{s.count(y)}x in {fn}"; return res
                i = s.index(x); j = s.index(y, i + len(x))
                open(p, "w").write((s[:i] + new + s[j:]).replace("\x00EOF", "")); continue
            if s.count(old) != 1:
                res["suite"] = f"EDIT-ERROR: pattern occurs {s.count(old)}x in {fn}"; return res
            open(p, "w").write(s.replace(old, new))
        b = subprocess.run("go build . 2>&1 | tail -3; go test -vet=off -count=1 . 2>&1 | tail -3", shell=True, cwd=d, env=ENV, stdout=subprocess.PIPE, stderr=subprocess.STDOUT, text=True)
        res["suite"] = "passes" if ("ok  " in b.stdout and "FAIL" not in b.stdout) else "differs: " + (b.stdout.strip().splitlines() or ["?"])[-1][:120]
        only = [x for x in os.environ.get("SOUND_PROPS", "").split(",") if x]
        for pid in [q for q in m["props"] if not only or q in only]:
            t0 = time.time()
            c = subprocess.run([os.path.join(ROOT, "check"), pid, "--tier", "quick"], cwd=ROOT, env=dict(ENV, VERIF_REPO=d), stdout=subprocess.PIPE, stderr=subprocess.STDOUT, text=True)
            msg = ""
            for ln in c.stdout.splitlines():
                if ln.startswith("--- ") or ln.startswith("INCONCLUSIVE") or ln.startswith("BUILD FAILED"):
                    msg = ln[:240]
            res["checks"][pid] = dict(rc=c.returncode, wall=round(time.time() - t0, 1), msg=msg)
    finally:
        shutil.rmtree(d, ignore_errors=True); purge_scratch(ROOT, d)
    return res


def main():
    args = sys.argv[1:]; j = 3
    if args and args[0] == "-j":
        j = int(args[1]); args = args[2:]
    sel = [m for m in ALTS if not args or any(a in m["id"] for a in args)]
    with ThreadPoolExecutor(j) as ex:
        results = list(ex.map(one, sel))
    lines = ["# Soundness results: legitimate alternative implementations must not raise alarms", "",
             "`check rc` must be 0 everywhere (1 = FALSE ALARM, 2 = inconclusive); for the few alternatives marked `allow=[0, 2]` (not observable under synctest) exit 2 is admissible, exit 1 never.", "",
             "| alternative | property | pinned suite on it | check rc | wall s | reported |", "|---|---|---|---|---|---|"]
    silent = alarms = 0
    for r in results:
        if not r["checks"]:
            lines.append(f"| {r['id']} | - | {r['suite']} | - | - | |")
        for pid, c in r["checks"].items():
            okrc = c["rc"] in r.get("allow", [0])
            silent += okrc; alarms += not okrc
            lines.append(f"| {r['id']} | {pid} | {r['suite']} | {c['rc']} | {c['wall']} | {c['msg'].replace('|', '/')} |")
    lines.insert(2, f"silent {silent}, not silent {alarms}\n")
    if not args and not os.environ.get("SOUND_PROPS"):
        open(os.path.join(HERE, "RESULTS.md"), "w").write("\n".join(lines) + "\n")
    print("\n".join(lines))


if __name__ == "__main__":
    main()
