"""Alternatives of the third review round, flows / nodes half. Same format as alts.py."""


def A(id, props, *edits, why=""):
    return dict(id=id, props=props, edits=list(edits), why=why)


FLOW = ["C01", "C02", "C03", "C04", "C05", "C10", "C17", "C18"]

ALTS_D = [
    A("alt3-exec-in-goroutine-run-returns-on-cancel", ["C05", "C01", "C02", "C04", "C20"],
      ("flyt.go", '''		execResult, execErr = node.Exec(ctx, prepResult)
		if execErr == nil {
			break
		}
	}

	// Handle exec failure''', '''		type execOut struct {
			v   any
			err error
		}
		ch := make(chan execOut, 1)
		go func() {
			v, err := node.Exec(ctx, prepResult)
			ch <- execOut{v, err}
		}()
		select {
		case out := <-ch:
			execResult, execErr = out.v, out.err
		case <-ctx.Done():
			// do not hang on an exec that ignores its context
			return "", fmt.Errorf("run: context cancelled during exec: %w", ctx.Err())
		}
		if execErr == nil {
			break
		}
	}

	// Handle exec failure'''),
      why="Run does not wait for an exec callback that ignores cancellation (the callback goroutine ends on its own)"),
    A("alt3-fallback-not-consulted-once-cancelled", ["C05", "C01", "C02", "C04"],
      ("flyt.go", '''		if fallback, ok := node.(FallbackNode); ok {
			execResult, execErr = fallback.ExecFallback(prepResult, execErr)''', '''		if fallback, ok := node.(FallbackNode); ok && ctx.Err() == nil {
			execResult, execErr = fallback.ExecFallback(prepResult, execErr)'''),
      why="once the context is done the fallback is skipped and the run ends with the exec error (nothing is started, success is not reported)"),
    A("alt3-sequential-batch-is-cached-one-worker-pool", ["C04", "C05", "C03", "C10", "C06", "C07", "C09", "C11", "C20", "C02", "C17"],
      ("batch.go", '''	if concurrency > 0 {
		runBatchConcurrent(ctx, node, items, results, concurrency, errorHandling)
	} else {
		runBatchSequential(ctx, node, items, results, errorHandling)
	}''', '''	if concurrency <= 0 {
		concurrency = 1 // FIFO queue, one worker: items run in order
	}
	runBatchConcurrent(ctx, node, items, results, concurrency, errorHandling)'''),
      ("batch.go", '''	pool := NewWorkerPool(concurrency)
	defer pool.Close()
''', '''	var pool *WorkerPool
	if p, ok := cachedPools.Load(node); ok && p.(*cachedPool).size == concurrency {
		pool = p.(*cachedPool).pool
	} else {
		pool = NewWorkerPool(concurrency)
		cachedPools.Store(node, &cachedPool{pool: pool, size: concurrency})
	}
'''),
      ("batch.go", '''func runExecWithRetries(ctx context.Context, node Node, item Result) (any, error) {''', '''type cachedPool struct {
	pool *WorkerPool
	size int
}

var cachedPools sync.Map

var _ = runBatchSequential

func runExecWithRetries(ctx context.Context, node Node, item Result) (any, error) {'''),
      why="sequential batches run on a one-worker pool that is kept per node (goroutines outlive the run; only C12 speaks about pool lifetime)"),
    A("alt3-deadline-margin-gives-up-early", ["C02", "C05", "C20", "C01"],
      ("flyt.go", '''		if attempt > 0 && wait > 0 {
			select {
			case <-time.After(wait):
				// Continue with retry''', '''		if attempt > 0 && wait > 0 {
			// not enough time left for the wait plus a reasonable attempt: give up now
			if dl, ok := ctx.Deadline(); ok && time.Until(dl) < wait+100*time.Millisecond {
				return "", fmt.Errorf("run: deadline too close for another attempt: %w", context.DeadlineExceeded)
			}
			select {
			case <-time.After(wait):
				// Continue with retry'''),
      why="a retry is not started when the context's deadline is closer than the wait plus a margin (contexts are outside C02's quantifier)"),
    A("alt3-flow-run-on-working-copy", FLOW,
      ("flyt.go", '''	_, err := Run(ctx, f, shared)
	return err
}''', '''	work := NewSharedStore()
	work.Merge(shared.GetAll())
	_, err := Run(ctx, f, work)
	shared.Merge(work.GetAll())
	return err
}'''),
      why="Flow.Run works on a private working copy of the store and publishes it back when the flow is over"),
    A("alt3-nested-flow-gets-store-handle", FLOW,
      ("flyt.go", '''type SharedStore struct {
	mu   sync.RWMutex
	data map[string]any
}''', '''type SharedStore struct {
	*storeCore
	scope string
}

type storeCore struct {
	mu   sync.RWMutex
	data map[string]any
}'''),
      ("flyt.go", '''	return &SharedStore{
		data: make(map[string]any),
	}''', '''	return &SharedStore{storeCore: &storeCore{data: make(map[string]any)}}'''),
      ("flyt.go", '''		action, err := Run(ctx, current, shared)
		if err != nil {
			return nil, err
		}

		lastAction = action''', '''		target := shared
		if _, isFlow := current.(*Flow); isFlow {
			target = &SharedStore{storeCore: shared.storeCore, scope: shared.scope + "/sub"}
		}
		action, err := Run(ctx, current, target)
		if err != nil {
			return nil, err
		}

		lastAction = action'''),
      why="a nested flow gets a new *SharedStore handle onto the same lock and map (same store, different pointer)"),
    A("alt3-flow-without-embedded-basenode", FLOW + ["C19", "C06"],
      ("flyt.go", '''type Flow struct {
	*BaseNode
	start       Node''', '''type Flow struct {
	start       Node'''),
      ("flyt.go", '''	return &Flow{
		BaseNode:    NewBaseNode(),
		start:       start,''', '''	return &Flow{
		start:       start,'''),
      why="Flow no longer embeds *BaseNode (a flow gets one attempt); the harness must still build"),
]
