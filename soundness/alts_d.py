"""Alternatives of the third review round, flows / nodes half. Same format as alts.py."""


def A(id, props, *edits, why=""):
    return dict(id=id, props=props, edits=list(edits), why=why)


FLOW = ["C01", "C02", "C03", "C04", "C05", "C10", "C17", "C18"]

ALTS_D = [
    A("alt3-exec-in-goroutine-run-returns-on-cancel", ["C05", "C01", "C02", "C04", "C20"],
      ("flyt.go", '''		execResult, execErr = node.Exec(ctx, prepResult)
		if execErr == nil {
			break
		}
	}

	// Handle exec failure''', '''		type execOut struct {
			v   any
			err error
		}
		ch := make(chan execOut, 1)
		go func() {
			v, err := node.Exec(ctx, prepResult)
			ch <- execOut{v, err}
		}()
		select {
		case out := <-ch:
			execResult, execErr = out.v, out.err
		case <-ctx.Done():
			// do not hang on an exec that ignores its context
			return "", fmt.Errorf("run: context cancelled during exec: %w", ctx.Err())
		}
		if execErr == nil {
			break
		}
	}

	// Handle exec failure'''),
      why="Run does not wait for an exec callback that ignores cancellation (the callback goroutine ends on its own)"),
    A("alt3-fallback-not-consulted-once-cancelled", ["C05", "C01", "C02", "C04"],
      ("flyt.go", '''		if fallback, ok := node.(FallbackNode); ok {
			execResult, execErr = fallback.ExecFallback(prepResult, execErr)''', '''		if fallback, ok := node.(FallbackNode); ok && ctx.Err() == nil {
			execResult, execErr = fallback.ExecFallback(prepResult, execErr)'''),
      why="once the context is done the fallback is skipped and the run ends with the exec error (nothing is started, success is not reported)"),
    A("alt3-sequential-batch-is-cached-one-worker-pool", ["C04", "C05", "C03", "C10", "C06", "C07", "C09", "C11", "C20", "C02", "C17"],
      ("batch.go", '''	if concurrency > 0 {
		runBatchConcurrent(ctx, node, items, results, concurrency, errorHandling)
	} else {
		runBatchSequential(ctx, node, items, results, errorHandling)
	}''', '''	if concurrency <= 0 {
		concurrency = 1 // FIFO queue, one worker: items run in order
	}
	runBatchConcurrent(ctx, node, items, results, concurrency, errorHandling)'''),
      ("batch.go", '''	pool := NewWorkerPool(concurrency)
	defer pool.Close()
''', '''	var pool *WorkerPool
	if p, ok := cachedPools.Load(node); ok && p.(*cachedPool).size == concurrency {
		pool = p.(*cachedPool).pool
	} else {
		pool = NewWorkerPool(concurrency)
		cachedPools.Store(node, &cachedPool{pool: pool, size: concurrency})
	}
'''),
      ("batch.go", '''func runExecWithRetries(ctx context.Context, node Node, item Result) (any, error) {''', '''type cachedPool struct {
	pool *WorkerPool
	size int
}

var cachedPools sync.Map

var _ = runBatchSequential

func runExecWithRetries(ctx context.Context, node Node, item Result) (any, error) {'''),
      why="sequential batches run on a one-worker pool that is kept per node (goroutines outlive the run; only C12 speaks about pool lifetime)"),
    A("alt3-deadline-margin-gives-up-early", ["C02", "C05", "C20", "C01"],
      ("flyt.go", '''		if attempt > 0 && wait > 0 {
			select {
			case <-time.After(wait):
				// Continue with retry''', '''		if attempt > 0 && wait > 0 {
			// not enough time left for the wait plus a reasonable attempt: give up now
			if dl, ok := ctx.Deadline(); ok && time.Until(dl) < wait+100*time.Millisecond {
				return "", fmt.Errorf("run: deadline too close for another attempt: %w", context.DeadlineExceeded)
			}
			select {
			case <-time.After(wait):
				// Continue with retry'''),
      why="a retry is not started when the context's deadline is closer than the wait plus a margin (contexts are outside C02's quantifier)"),
    A("alt3-flow-run-on-working-copy", FLOW,
      ("flyt.go", '''	_, err := Run(ctx, f, shared)
	return err
}''', '''	work := NewSharedStore()
	work.Merge(shared.GetAll())
	_, err := Run(ctx, f, work)
	shared.Merge(work.GetAll())
	return err
}'''),
      why="Flow.Run works on a private working copy of the store and publishes it back when the flow is over"),
    A("alt3-nested-flow-gets-store-handle", FLOW,
      ("flyt.go", '''type SharedStore struct {
	mu   sync.RWMutex
	data map[string]any
}''', '''type SharedStore struct {
	*storeCore
	scope string
}

type storeCore struct {
	mu   sync.RWMutex
	data map[string]any
}'''),
      ("flyt.go", '''	return &SharedStore{
		data: make(map[string]any),
	}''', '''	return &SharedStore{storeCore: &storeCore{data: make(map[string]any)}}'''),
      ("flyt.go", '''		action, err := Run(ctx, current, shared)
		if err != nil {
			return nil, err
		}

		lastAction = action''', '''		target := shared
		if _, isFlow := current.(*Flow); isFlow {
			target = &SharedStore{storeCore: shared.storeCore, scope: shared.scope + "/sub"}
		}
		action, err := Run(ctx, current, target)
		if err != nil {
			return nil, err
		}

		lastAction = action'''),
      why="a nested flow gets a new *SharedStore handle onto the same lock and map (same store, different pointer)"),
    A("alt3-flow-without-embedded-basenode", FLOW + ["C19", "C06"],
      ("flyt.go", '''type Flow struct {
	*BaseNode
	start       Node''', '''type Flow struct {
	start       Node'''),
      ("flyt.go", '''	return &Flow{
		BaseNode:    NewBaseNode(),
		start:       start,''', '''	return &Flow{
		start:       start,'''),
      why="Flow no longer embeds *BaseNode (a flow gets one attempt); the harness must still build"),
    # ---- fourth review round, flows / nodes half ----
    A("alt4-wait-by-sleeper-goroutine", ["C20", "C05", "C01", "C02"],
      ("flyt.go", '''			select {
			case <-time.After(wait):
				// Continue with retry''', '''			waited := make(chan struct{})
			go func() {
				time.Sleep(wait)
				waited <- struct{}{}
			}()
			select {
			case <-waited:
				// Continue with retry'''),
      why="the retry wait is a sleeper goroutine and an unbuffered channel (after a cancellation in the wait the sleeper stays blocked: poor hygiene, but no property forbids it)"),
    A("alt4-deadline-aware-retry-uses-last-error", ["C02", "C05", "C20", "C01", "C04"],
      ("flyt.go", '''		if attempt > 0 && wait > 0 {
			select {
			case <-time.After(wait):
				// Continue with retry''', '''		if attempt > 0 && wait > 0 {
			if dl, ok := ctx.Deadline(); ok && time.Until(dl) < wait+100*time.Millisecond {
				break
			}
			select {
			case <-time.After(wait):
				// Continue with retry'''),
      why="the retry loop stops when the context's deadline is closer than the wait plus a margin and lets the fallback / the last attempt's error decide"),
    A("alt4-execless-function-node-is-an-error", ["C19", "C01", "C02", "C17", "C18"],
      ("flyt.go", '''		return result.Value(), nil
	}
	return n.BaseNode.Exec(ctx, prepResult)''', '''		return result.Value(), nil
	}
	return nil, fmt.Errorf("flyt: node has no exec function (use WithExecFunc or WithExecFuncAny)")'''),
      why="a function-style node that was never given an exec function is a configuration error"),
    A("alt4-submillisecond-wait-slept-no-recheck", ["C20"],
      ("flyt.go", '''		if attempt > 0 && wait > 0 {
			select {
			case <-time.After(wait):
				// Continue with retry''', '''		if attempt > 0 && wait > 0 && wait < time.Millisecond {
			time.Sleep(wait)
		} else if attempt > 0 && wait > 0 {
			select {
			case <-time.After(wait):
				// Continue with retry'''),
      why="sub-millisecond waits (below C20's quantified range) are slept out without a context check"),
    A("alt4-prep-error-formatted-with-v", ["C10", "C01", "C02", "C03", "C05"],
      ("flyt.go", '''		return "", fmt.Errorf("run: prep failed: %w", err)''', '''		return "", fmt.Errorf("run: prep failed: %v", err)'''),
      why="violates C04 only (error identity); the other flow checks must not report it as theirs"),
    A("alt4-flow-always-presents-default", ["C01", "C04", "C18", "C02", "C05", "C17"],
      ("flyt.go", '''	if action, ok := execResult.(Action); ok {
		return action, nil
	}
	return DefaultAction, nil
}''', '''	_ = execResult
	return DefaultAction, nil
}'''),
      why="violates C10 only (a flow used as a node always presents the default action; C03's nested part depends on C10's rule and reports it too, documented)"),
    A("alt4-batch-starts-items-after-cancel", ["C20", "C02", "C04", "C05"],
      ("batch.go", '''			if ctx.Err() != nil {
				results[idx] = NewErrorResult(fmt.Errorf("context cancelled"))
				return
			}

			execResult, err := runExecWithRetries(ctx, node, itm)''', '''			execResult, err := runExecWithRetries(ctx, node, itm)'''),
      ("batch.go", '''	for attempt := 0; attempt < maxRetries; attempt++ {
		if ctx.Err() != nil {
			return nil, fmt.Errorf("context cancelled during retry: %w", ctx.Err())
		}
''', '''	for attempt := 0; attempt < maxRetries; attempt++ {
		if attempt > 0 && ctx.Err() != nil {
			return nil, fmt.Errorf("context cancelled during retry: %w", ctx.Err())
		}
'''),
      why="violates C11 only (items are still started after the context is done); C20 speaks about retry waits"),
    A("alt4-typed-error-handling-getter", ["C19", "C06", "C09", "C18"],
      ("flyt.go", '''func (n *BaseNode) GetBatchErrorHandling() string {
	n.mu.RLock()
	defer n.mu.RUnlock()
	if n.batchErrorHandling == "" {
		return "continue" // default
	}
	return n.batchErrorHandling
}''', '''func (n *BaseNode) GetBatchErrorHandling() ErrorHandling {
	n.mu.RLock()
	defer n.mu.RUnlock()
	if n.batchErrorHandling == "" {
		return ContinueOnError // default
	}
	return ErrorHandling(n.batchErrorHandling)
}

// ErrorHandling names a batch error handling strategy.
type ErrorHandling string

const (
	ContinueOnError ErrorHandling = "continue"
	StopOnError     ErrorHandling = "stop"
)'''),
      ("batch.go", '''	var errorHandling = "continue"
''', '''	var errorHandling ErrorHandling = "continue"
'''),
      ("batch.go", '''func runBatchSequential(ctx context.Context, node Node, items []Result, results []Result, errorHandling string) {''', '''func runBatchSequential(ctx context.Context, node Node, items []Result, results []Result, errorHandling ErrorHandling) {'''),
      ("batch.go", '''func runBatchConcurrent(ctx context.Context, node Node, items []Result, results []Result, concurrency int, errorHandling string) {''', '''func runBatchConcurrent(ctx context.Context, node Node, items []Result, results []Result, concurrency int, errorHandling ErrorHandling) {'''),
      why="GetBatchErrorHandling returns a named string type; the harness must still build"),
    A("alt4-builder-keeps-own-customnode", ["C02", "C17", "C07", "C06", "C19", "C18"],
      ("batch.go", '''type BatchNodeBuilder struct {
	*BatchNode
}''', '''type BatchNodeBuilder struct {
	*BatchNode
	cn *CustomNode
}'''),
      ("batch.go", '''	return &BatchNodeBuilder{
		BatchNode: &BatchNode{CustomNode: customNode},
	}''', '''	return &BatchNodeBuilder{
		BatchNode: &BatchNode{CustomNode: customNode},
		cn:        customNode,
	}'''),
      ("batch.go", '''	WithMaxRetries(retries)(b.BaseNode)''', '''	WithMaxRetries(retries)(b.cn.BaseNode)'''),
      ("batch.go", '''	WithWait(wait)(b.BaseNode)''', '''	WithWait(wait)(b.cn.BaseNode)'''),
      ("batch.go", '''	b.batchConcurrency = n
	return b''', '''	b.cn.batchConcurrency = n
	return b'''),
      ("batch.go", '''	if continueOnError {
		b.batchErrorHandling = "continue"
	} else {
		b.batchErrorHandling = "stop"
	}
	return b''', '''	if continueOnError {
		b.cn.batchErrorHandling = "continue"
	} else {
		b.cn.batchErrorHandling = "stop"
	}
	return b'''),
      ("batch.go", '''func (b *BatchNodeBuilder) WithExecFunc(fn func(context.Context, Result) (Result, error)) *BatchNodeBuilder {
	b.execFunc = fn''', '''func (b *BatchNodeBuilder) WithExecFunc(fn func(context.Context, Result) (Result, error)) *BatchNodeBuilder {
	b.cn.execFunc = fn'''),
      ("batch.go", '''func (b *BatchNodeBuilder) WithExecFuncAny(fn func(context.Context, any) (any, error)) *BatchNodeBuilder {
	b.execFunc = func(''', '''func (b *BatchNodeBuilder) WithExecFuncAny(fn func(context.Context, any) (any, error)) *BatchNodeBuilder {
	b.cn.execFunc = func('''),
      why="the batch builder keeps its own pointer to the CustomNode it created and configures that one (replacing the exported embedded field afterwards has no effect on it)"),
    # ---- fourth review round, batch / pool / store half ----
    dict(id="alt4-pool-submit-holds-mutex", props=["C12", "C08"], allow=[0, 2], why="Submit holds a mutex (guarding a closed flag) across the channel send; a goroutine waiting for a sync.Mutex is not durably blocked under synctest, so the controller cannot make progress: inconclusive (exit 2) is admissible, an alarm is not",
         edits=[("flyt.go", '''	wg      sync.WaitGroup
	done    chan struct{}
}''', '''	wg      sync.WaitGroup
	done    chan struct{}
	mu      sync.Mutex // guards closed; makes Submit after Close a no-op instead of a panic
	closed  bool
}'''),
                ("flyt.go", '''func (p *WorkerPool) Submit(task func()) {
	p.wg.Add(1)''', '''func (p *WorkerPool) Submit(task func()) {
	p.mu.Lock()
	defer p.mu.Unlock()
	if p.closed {
		return
	}
	p.wg.Add(1)'''),
                ("flyt.go", '''func (p *WorkerPool) Close() {
	close(p.done)
	close(p.tasks)
}''', '''func (p *WorkerPool) Close() {
	p.mu.Lock()
	defer p.mu.Unlock()
	if p.closed {
		return
	}
	p.closed = true
	close(p.done)
	close(p.tasks)
}''')]),
    dict(id="alt4-pool-wait-excludes-submit", props=["C12", "C08"], allow=[0, 2], why="Submit takes gate.RLock around wg.Add, Wait takes gate.Lock around wg.Wait (guard against Add concurrent with Wait); mutex waits are not observable under synctest: exit 2 admissible, exit 1 not",
         edits=[("flyt.go", '''	wg      sync.WaitGroup
	done    chan struct{}
}''', '''	wg      sync.WaitGroup
	done    chan struct{}
	gate    sync.RWMutex
}'''),
                ("flyt.go", '''func (p *WorkerPool) Submit(task func()) {
	p.wg.Add(1)''', '''func (p *WorkerPool) Submit(task func()) {
	p.gate.RLock()
	p.wg.Add(1)
	p.gate.RUnlock()'''),
                ("flyt.go", '''func (p *WorkerPool) Wait() {
	p.wg.Wait()
}''', '''func (p *WorkerPool) Wait() {
	p.gate.Lock()
	defer p.gate.Unlock()
	p.wg.Wait()
}''')]),
    A("alt4-pool-elastic-with-idle-timeout", ["C08", "C12", "C06", "C19"],
      ("flyt.go", "__POOL__", '''type WorkerPool struct {
	workers int
	tasks   chan func() // unbuffered hand-off
	wg      sync.WaitGroup
	done    chan struct{}
	mu      sync.Mutex
	running int // worker goroutines alive
	idle    int // of those, parked waiting for a task
}

const poolIdleTimeout = 500 * time.Millisecond

func NewWorkerPool(workers int) *WorkerPool {
	if workers <= 0 {
		workers = 1
	}
	return &WorkerPool{workers: workers, tasks: make(chan func()), done: make(chan struct{})}
}

func (p *WorkerPool) worker(first func()) {
	first()
	timer := time.NewTimer(poolIdleTimeout)
	defer timer.Stop()
	for {
		p.mu.Lock()
		p.idle++
		p.mu.Unlock()
		if !timer.Stop() {
			select {
			case <-timer.C:
			default:
			}
		}
		timer.Reset(poolIdleTimeout)
		select {
		case task, ok := <-p.tasks:
			p.mu.Lock()
			p.idle--
			if !ok {
				p.running--
				p.mu.Unlock()
				return
			}
			p.mu.Unlock()
			task()
		case <-timer.C:
			p.mu.Lock()
			p.idle--
			p.running--
			p.mu.Unlock()
			return
		case <-p.done:
			p.mu.Lock()
			p.idle--
			p.running--
			p.mu.Unlock()
			return
		}
	}
}

func (p *WorkerPool) Submit(task func()) {
	p.wg.Add(1)
	wrapped := func() { defer p.wg.Done(); task() }
	p.mu.Lock()
	if p.idle == 0 && p.running < p.workers {
		p.running++
		p.mu.Unlock()
		go p.worker(wrapped)
		return
	}
	p.mu.Unlock()
	for {
		select {
		case p.tasks <- wrapped:
			return
		case <-time.After(poolIdleTimeout / 4): // every worker may have timed out meanwhile
			p.mu.Lock()
			if p.running < p.workers {
				p.running++
				p.mu.Unlock()
				go p.worker(wrapped)
				return
			}
			p.mu.Unlock()
		}
	}
}

func (p *WorkerPool) Wait()  { p.wg.Wait() }
func (p *WorkerPool) Close() { close(p.done) }
'''),
      why="elastic pool: workers are started on demand (at the latest 125 ms after Submit), exit after 500 ms idle; never more than `workers` alive"),
    A("alt4-batch-prep-through-generic-route", ["C06", "C07", "C09", "C11", "C08", "C02", "C17"],
      ("batch.go", '''	// Prep phase - returns []Result
	prepResult, err := node.Prep(ctx, shared)
	if err != nil {
		return "", fmt.Errorf("run: prep failed: %w", err)
	}

	// Convert to []Result
	var items []Result
	switch v := prepResult.(type) {
	case []Result:
		items = v
	case []any:
		items = make([]Result, len(v))
		for i, item := range v {
			items[i] = NewResult(item)
		}
	default:
		// Try to convert using ToSlice
		slice := ToSlice(prepResult)
		items = make([]Result, len(slice))
		for i, item := range slice {
			items[i] = NewResult(item)
		}
	}
''', '''	var items []Result
	if bn, ok := node.(*BatchNode); ok && bn.batchPrepFunc != nil {
		typed, err := bn.batchPrepFunc(ctx, shared) // the documented route
		if err != nil {
			return "", fmt.Errorf("run: prep failed: %w", err)
		}
		items = typed
	} else if bb, ok := node.(*BatchNodeBuilder); ok && bb.batchPrepFunc != nil {
		typed, err := bb.batchPrepFunc(ctx, shared)
		if err != nil {
			return "", fmt.Errorf("run: prep failed: %w", err)
		}
		items = typed
	} else {
		prepResult, err := node.Prep(ctx, shared) // anything else: ToSlice, one item per element
		if err != nil {
			return "", fmt.Errorf("run: prep failed: %w", err)
		}
		slice := ToSlice(prepResult)
		items = make([]Result, len(slice))
		for i, item := range slice {
			items[i] = NewResult(item)
		}
	}
'''),
      why="only the typed WithPrepFunc route yields items as they are; anything that comes through node.Prep is itemised by ToSlice (a []Result smuggled in through the swapped CustomNode becomes Result-wrapping-Result items)"),
    A("alt4-newbatchnode-typed-options", ["C06", "C19", "C18", "C07"],
      ("batch.go", '''func NewBatchNode(opts ...any) *BatchNodeBuilder {''', '''func NewBatchNode(opts ...NodeOption) *BatchNodeBuilder {'''),
      ("batch.go", '''	for _, opt := range opts {
		switch o := opt.(type) {
		case NodeOption:
			baseOpts = append(baseOpts, o)
		case func(*BaseNode):
			baseOpts = append(baseOpts, NodeOption(o))
		}
	}
''', '''	baseOpts = append(baseOpts, opts...)
'''),
      why="NewBatchNode takes ...NodeOption instead of ...any; the harness must still build"),
]
