# NodeBuilder's chained methods return a modified COPY and leave the receiver untouched (immutable
# builder / "wither" idiom: a half-configured builder can be shared as a template).
import re
def _rewrite():
    s = open("/repo/builder.go").read()
    # every "func (b *NodeBuilder) WithX(...) *NodeBuilder {" body: operate on a clone
    out = []
    for block in re.split(r"(?m)^(?=// With|func \(b \*NodeBuilder\) With)", s):
        if "func (b *NodeBuilder) With" in block:
            block = re.sub(r"(func \(b \*NodeBuilder\) With\w+\([^)]*(?:\([^)]*\)[^)]*)*\) \*NodeBuilder \{\n)", r"\1\tb = b.clone()\n", block, count=1)
        out.append(block)
    s = "".join(out)
    s += '''
// clone returns an independent copy of the builder: chained With... methods never modify their
// receiver, so a partially configured builder can be kept as a template.
func (b *NodeBuilder) clone() *NodeBuilder {
	src := b.CustomNode
	src.BaseNode.mu.RLock()
	base := &BaseNode{
		maxRetries:         src.BaseNode.maxRetries,
		wait:               src.BaseNode.wait,
		batchConcurrency:   src.BaseNode.batchConcurrency,
		batchErrorHandling: src.BaseNode.batchErrorHandling,
	}
	src.BaseNode.mu.RUnlock()
	return &NodeBuilder{CustomNode: &CustomNode{
		BaseNode:         base,
		prepFunc:         src.prepFunc,
		execFunc:         src.execFunc,
		postFunc:         src.postFunc,
		execFallbackFunc: src.execFallbackFunc,
	}}
}
'''
    return s
EDITS = [("builder.go", None, _rewrite())]
