# API hygiene that rides along with batch feature work: the batch settings move from BaseNode (where every
# node carried them) to BatchNode. WithBatchConcurrency / WithBatchErrorHandling become BatchOptions accepted
# by NewBatchNode only; the getters live on BatchNode; the plain NodeBuilder loses its two batch setters.
EDITS = [
("flyt.go", "\n\t// Batch configuration\n\tbatchConcurrency   int    // 0 = sequential, >0 = concurrent with limit\n\tbatchErrorHandling string // \"stop\", \"continue\"\n", "\n"),
("flyt.go", ("// WithBatchConcurrency sets the concurrency level for batch processing.\n// 0 means sequential", "// GetMaxRetries returns the maximum number of retries configured for this node."), ""),
("flyt.go", ("// GetBatchConcurrency returns the batch concurrency level configured for this node.", "// Prep is the default prep implementation that returns nil."), ""),
("builder.go", ("// WithBatchConcurrency sets the concurrency level for batch processing.\n// Returns the builder for method chaining.\nfunc (b *NodeBuilder) WithBatchConcurrency(", "\x00EOF"), ""),
("batch.go", "type BatchNode struct {\n\t*CustomNode\n", '''type BatchNode struct {
	*CustomNode
	cfgMu         sync.RWMutex
	concurrency   int    // 0 = sequential, >0 = concurrent with limit
	errorHandling string // "stop", "continue" ("" = continue)
'''),
("batch.go", "// Prep delegates to batchPrepFunc if set\n", '''// BatchOption configures a BatchNode (see NewBatchNode).
type BatchOption func(*BatchNode)

// WithBatchConcurrency sets the concurrency level for batch processing.
// 0 means sequential processing, >0 means concurrent with the specified limit.
func WithBatchConcurrency(n int) BatchOption {
	return func(b *BatchNode) {
		b.cfgMu.Lock()
		defer b.cfgMu.Unlock()
		b.concurrency = n
	}
}

// WithBatchErrorHandling sets the error handling strategy for batch processing.
// If continueOnError is true, processing continues even if some items fail.
// If false, processing stops on the first error.
func WithBatchErrorHandling(continueOnError bool) BatchOption {
	return func(b *BatchNode) {
		b.cfgMu.Lock()
		defer b.cfgMu.Unlock()
		if continueOnError {
			b.errorHandling = "continue"
		} else {
			b.errorHandling = "stop"
		}
	}
}

// GetBatchConcurrency returns the batch concurrency level configured for this node.
func (n *BatchNode) GetBatchConcurrency() int {
	n.cfgMu.RLock()
	defer n.cfgMu.RUnlock()
	return n.concurrency
}

// GetBatchErrorHandling returns the batch error handling strategy configured for this node.
func (n *BatchNode) GetBatchErrorHandling() string {
	n.cfgMu.RLock()
	defer n.cfgMu.RUnlock()
	if n.errorHandling == "" {
		return "continue" // default
	}
	return n.errorHandling
}

// Prep delegates to batchPrepFunc if set
'''),
("batch.go", "\tvar baseOpts []NodeOption\n\tfor _, opt := range opts {\n\t\tswitch o := opt.(type) {\n\t\tcase NodeOption:\n\t\t\tbaseOpts = append(baseOpts, o)\n\t\tcase func(*BaseNode):\n\t\t\tbaseOpts = append(baseOpts, NodeOption(o))\n\t\t}\n\t}\n\n\tfor _, opt := range baseOpts {\n\t\topt(customNode.BaseNode)\n\t}\n\n\treturn &BatchNodeBuilder{\n\t\tBatchNode: &BatchNode{CustomNode: customNode},\n\t}\n}", "\tnode := &BatchNode{CustomNode: customNode}\n\tfor _, opt := range opts {\n\t\tswitch o := opt.(type) {\n\t\tcase NodeOption:\n\t\t\to(customNode.BaseNode)\n\t\tcase func(*BaseNode):\n\t\t\to(customNode.BaseNode)\n\t\tcase BatchOption:\n\t\t\to(node)\n\t\tcase func(*BatchNode):\n\t\t\to(node)\n\t\t}\n\t}\n\n\treturn &BatchNodeBuilder{BatchNode: node}\n}"),
("batch.go", "func (b *BatchNodeBuilder) WithBatchConcurrency(n int) *BatchNodeBuilder {\n\tb.batchConcurrency = n\n\treturn b\n}", "func (b *BatchNodeBuilder) WithBatchConcurrency(n int) *BatchNodeBuilder {\n\tWithBatchConcurrency(n)(b.BatchNode)\n\treturn b\n}"),
("batch.go", "func (b *BatchNodeBuilder) WithBatchErrorHandling(continueOnError bool) *BatchNodeBuilder {\n\tif continueOnError {\n\t\tb.batchErrorHandling = \"continue\"\n\t} else {\n\t\tb.batchErrorHandling = \"stop\"\n\t}\n\treturn b\n}", "func (b *BatchNodeBuilder) WithBatchErrorHandling(continueOnError bool) *BatchNodeBuilder {\n\tWithBatchErrorHandling(continueOnError)(b.BatchNode)\n\treturn b\n}"),
("batch.go", "\tif baseNode, ok := node.(*BaseNode); ok {\n\t\tconcurrency = baseNode.GetBatchConcurrency()\n\t\terrorHandling = baseNode.GetBatchErrorHandling()\n\t} else if customNode, ok := node.(*CustomNode); ok {\n\t\tconcurrency = customNode.GetBatchConcurrency()\n\t\terrorHandling = customNode.GetBatchErrorHandling()\n\t} else if batchNode, ok := node.(*BatchNode); ok {\n\t\tconcurrency = batchNode.GetBatchConcurrency()\n\t\terrorHandling = batchNode.GetBatchErrorHandling()\n\t} else if batchBuilder, ok := node.(*BatchNodeBuilder); ok {\n\t\tconcurrency = batchBuilder.GetBatchConcurrency()\n\t\terrorHandling = batchBuilder.GetBatchErrorHandling()\n\t}\n", "\tif batchNode, ok := node.(*BatchNode); ok {\n\t\tconcurrency = batchNode.GetBatchConcurrency()\n\t\terrorHandling = batchNode.GetBatchErrorHandling()\n\t} else if batchBuilder, ok := node.(*BatchNodeBuilder); ok {\n\t\tconcurrency = batchBuilder.GetBatchConcurrency()\n\t\terrorHandling = batchBuilder.GetBatchErrorHandling()\n\t}\n"),
]
