# BatchNodeBuilder's chained methods return a modified COPY and leave the receiver untouched.
import re
def _rewrite():
    s = open("/repo/batch.go").read()
    s, n = re.subn(r"(func \(b \*BatchNodeBuilder\) With\w+\((?:[^()]|\([^()]*\))*\) \*BatchNodeBuilder \{\n)", r"\1\tb = b.clone()\n", s)
    assert n == 8, n
    s = s.replace('''// runBatch handles the execution of batch nodes
''', '''// clone returns an independent copy of the builder: chained With... methods never modify their
// receiver, so a partially configured builder can be kept as a template.
func (b *BatchNodeBuilder) clone() *BatchNodeBuilder {
	src := b.BatchNode
	src.BaseNode.mu.RLock()
	base := &BaseNode{
		maxRetries:         src.BaseNode.maxRetries,
		wait:               src.BaseNode.wait,
		batchConcurrency:   src.BaseNode.batchConcurrency,
		batchErrorHandling: src.BaseNode.batchErrorHandling,
	}
	src.BaseNode.mu.RUnlock()
	return &BatchNodeBuilder{BatchNode: &BatchNode{
		CustomNode: &CustomNode{
			BaseNode:         base,
			prepFunc:         src.prepFunc,
			execFunc:         src.execFunc,
			postFunc:         src.postFunc,
			execFallbackFunc: src.execFallbackFunc,
		},
		batchPrepFunc: src.batchPrepFunc,
		batchPostFunc: src.batchPostFunc,
	}}
}

// runBatch handles the execution of batch nodes
''')
    return s
EDITS = [("batch.go", None, _rewrite())]
