"""Alternatives of the sixth review round, kept in the reviewers' own file format under ext/:
each file defines EDITS = [(file, old, new), ...] (old may be a (start, end) region) and WHY."""
import glob, os

HERE = os.path.dirname(os.path.abspath(__file__))
FLOW = ["C01", "C02", "C03", "C04", "C05", "C10", "C17", "C18", "C19", "C20"]
BATCH = ["C06", "C07", "C08", "C09", "C11", "C12", "C13", "C14", "C15", "C16"]
PROPS = {"A": FLOW + ["C06", "C07"], "B": BATCH + ["C02", "C17", "C19"]}

ALTS_F = []
for p in sorted(glob.glob(os.path.join(HERE, "ext", "*.py"))):
    ns = {}
    exec(open(p).read(), ns)
    name = os.path.basename(p)[:-3]
    ALTS_F.append(dict(id="alt6-" + name, props=ns.get("PROPS", PROPS.get(name[0], FLOW)), edits=list(ns["EDITS"]), why=ns.get("WHY", "")))

# reviewer B6's file (dictionary format): the three alternatives that exposed findings plus controls
import ext_b6  # noqa: E402
for _id, _props in (("batchfallback", ["C07", "C02", "C06", "C09", "C11", "C17"]), ("batchfallback-deleg", ["C07", "C02"]),
                    ("rampup", ["C08", "C12", "C06"]), ("resizepoll", ["C12", "C08"])):
    if _id in ext_b6.ALTS:
        ALTS_F.append(dict(id="alt6-" + _id, props=_props, edits=ext_b6.ALTS[_id]["edits"], why=ext_b6.ALTS[_id]["why"]))
