"""Alternatives of the fifth review round ("the next two years of the git history"). Same format as
alts.py; an `old` that is a tuple (start, end) replaces the region from start up to (not including)
end, "\x00EOF" meaning the end of the file."""


def A(id, props, *edits, why="", **kw):
    return dict(id=id, props=props, edits=list(edits), why=why, **kw)


ALL = ["C01", "C02", "C03", "C04", "C05", "C10", "C17", "C18", "C19", "C20", "C06", "C07"]

ALTS_E = [
    A("alt5-exec-abandoned-on-cancel-fallback-decides", ["C06", "C11", "C09", "C07", "C08"],
      ("batch.go", "\t\texecResult, execErr = node.Exec(ctx, item)\n", "\t\texecResult, execErr = execInterruptible(ctx, node, item)\n"),
      ("batch.go", "func runExecWithRetries(ctx context.Context, node Node, item Result) (any, error) {", '''type execOutcome struct {
	res any
	err error
}

// execInterruptible runs one attempt without letting a stuck Exec delay cancellation.
func execInterruptible(ctx context.Context, node Node, item Result) (any, error) {
	ch := make(chan execOutcome, 1) // buffered: an abandoned attempt must not leak its goroutine
	go func() { res, err := node.Exec(ctx, item); ch <- execOutcome{res, err} }()
	select {
	case o := <-ch:
		return o.res, o.err
	case <-ctx.Done():
		return nil, fmt.Errorf("exec abandoned: %w", ctx.Err())
	}
}

func runExecWithRetries(ctx context.Context, node Node, item Result) (any, error) {'''),
      why="each batch attempt runs in its own goroutine and is abandoned with the context's error when the context ends; as today the fallback then decides the item's outcome"),
    A("alt5-error-result-soft-retry", ["C17", "C01", "C02", "C04", "C05"],
      ("flyt.go", "\t\texecResult, execErr = node.Exec(ctx, prepResult)\n\t\tif execErr == nil {\n\t\t\tbreak\n\t\t}\n\t}\n\n\t// Handle exec failure", "\t\texecResult, execErr = node.Exec(ctx, prepResult)\n\t\tif execErr == nil {\n\t\t\tif r, ok := execResult.(Result); ok && r.IsError() && attempt+1 < maxRetries {\n\t\t\t\tcontinue // soft failure: try again, the last outcome is delivered as it is\n\t\t\t}\n\t\t\tbreak\n\t\t}\n\t}\n\n\t// Handle exec failure"),
      why="an error Result returned by exec with a nil Go error is retried while attempts are left; the outcome of the last attempt reaches post unchanged"),
    A("alt5-typed-constructor-options", ALL,
      ('flyt.go', ('func NewNode(opts ...any) *NodeBuilder {', '// WithPrepFunc sets a custom Prep implementation for a CustomNode.'), 'func NewNode(opts ...Option) *NodeBuilder {\n\tnode := &CustomNode{\n\t\tBaseNode: NewBaseNode(),\n\t}\n\n\t// base node options first, then the function options (as before)\n\tfor _, opt := range opts {\n\t\tif o, ok := opt.(NodeOption); ok {\n\t\t\to(node.BaseNode)\n\t\t}\n\t}\n\tfor _, opt := range opts {\n\t\tif _, ok := opt.(NodeOption); !ok && opt != nil {\n\t\t\topt.applyOption(node)\n\t\t}\n\t}\n\n\treturn &NodeBuilder{CustomNode: node}\n}\n\n// Option is anything NewNode and NewBatchNode accept: a NodeOption (WithMaxRetries, WithWait, ...)\n// or a CustomNodeOption (WithExecFunc, ...).\ntype Option interface {\n\tapplyOption(*CustomNode)\n}\n\nfunc (o NodeOption) applyOption(n *CustomNode) { o(n.BaseNode) }\n\n// CustomNodeOption is an option for configuring a CustomNode.\n// It allows setting custom implementations for Prep, Exec, and Post methods.\ntype CustomNodeOption interface {\n\tOption\n\tapply(*CustomNode)\n}\n\n// customNodeOption is the internal implementation of CustomNodeOption\ntype customNodeOption struct {\n\tf func(*CustomNode)\n}\n\nfunc (o *customNodeOption) apply(n *CustomNode)       { o.f(n) }\nfunc (o *customNodeOption) applyOption(n *CustomNode) { o.f(n) }\n\n'),
      ('batch.go', ('func NewBatchNode(opts ...any) *BatchNodeBuilder {', '\treturn &BatchNodeBuilder{\n\t\tBatchNode: &BatchNode{CustomNode: customNode},'), 'func NewBatchNode(opts ...Option) *BatchNodeBuilder {\n\tcustomNode := &CustomNode{\n\t\tBaseNode: NewBaseNode(),\n\t}\n\n\tfor _, opt := range opts {\n\t\tif o, ok := opt.(NodeOption); ok {\n\t\t\to(customNode.BaseNode)\n\t\t}\n\t}\n\n'),
      why="NewNode / NewBatchNode take ...Option (an interface implemented by NodeOption and the function options) instead of ...any; the harness must still build"),
    A("alt5-plain-builder-without-batch-setters", ["C19", "C01", "C17", "C18"],
      ("builder.go", ("// WithBatchConcurrency sets the concurrency level for batch processing.\n// Returns the builder for method chaining.\nfunc (b *NodeBuilder) WithBatchConcurrency(", "\x00EOF"), ""),
      why="NodeBuilder.WithBatchConcurrency / WithBatchErrorHandling removed from the plain builder (the options remain)"),
    A("alt5-context-errors-not-retried", ["C10", "C01", "C03", "C04", "C05", "C17", "C18"],
      ("flyt.go", "\t\texecResult, execErr = node.Exec(ctx, prepResult)\n\t\tif execErr == nil {\n\t\t\tbreak\n\t\t}\n\t}\n\n\t// Handle exec failure", "\t\texecResult, execErr = node.Exec(ctx, prepResult)\n\t\tif execErr == nil {\n\t\t\tbreak\n\t\t}\n\t\tif errors.Is(execErr, context.Canceled) || errors.Is(execErr, context.DeadlineExceeded) {\n\t\t\tbreak // retrying cannot help\n\t\t}\n\t}\n\n\t// Handle exec failure"),
      ("flyt.go", '\t"encoding/json"\n\t"fmt"\n', '\t"encoding/json"\n\t"errors"\n\t"fmt"\n'),
      why="violates C02 only (an attempt failing with an error that wraps a context error is not retried); the other flow checks must not report it as theirs"),
]
