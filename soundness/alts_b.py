"""Alternatives of the second review round (DESIGN.md section 12, "second round"). Same format as alts.py."""


def A(id, props, *edits, why=""):
    return dict(id=id, props=props, edits=list(edits), why=why)


ALTS_B = [
    A("alt-batch-ctx-checked-before-prep", ["C11", "C06", "C09", "C07", "C08", "C03", "C04", "C05", "C10"],
      ("batch.go", '''	// Prep phase - returns []Result
	prepResult, err := node.Prep(ctx, shared)''', '''	if err := ctx.Err(); err != nil {
		return "", fmt.Errorf("run: context cancelled: %w", err)
	}
	// Prep phase - returns []Result
	prepResult, err := node.Prep(ctx, shared)'''),
      why="a batch run on a context that is already done returns the context's error without calling prep, as Run does for ordinary nodes"),
    A("alt-batch-joined-attempt-errors", ["C06", "C07", "C09", "C11", "C04"],
      ("batch.go", '''import (
	"context"
	"fmt"''', '''import (
	"context"
	"errors"
	"fmt"'''),
      ("batch.go", '''		execResult, execErr = node.Exec(ctx, item)
		if execErr == nil {
			break
		}
	}
''', '''		execResult, execErr = node.Exec(ctx, item)
		if execErr == nil {
			break
		}
		attemptErrs = append(attemptErrs, execErr)
	}
	if execErr != nil && len(attemptErrs) > 1 {
		execErr = errors.Join(attemptErrs...)
	}
'''),
      ("batch.go", '''	var execResult any
	var execErr error

	for attempt := 0; attempt < maxRetries; attempt++ {
		if ctx.Err() != nil {
			return nil, fmt.Errorf("context cancelled during retry''', '''	var execResult any
	var execErr error
	var attemptErrs []error

	for attempt := 0; attempt < maxRetries; attempt++ {
		if ctx.Err() != nil {
			return nil, fmt.Errorf("context cancelled during retry'''),
      why="the error of an exhausted item joins every attempt's error; the last attempt's error is still matched under errors.Is/As"),
    A("alt-batch-premade-error-items-not-executed", ["C06", "C07", "C09", "C11", "C08", "C03", "C04", "C05", "C10"],
      ("batch.go", '''		execResult, err := runExecWithRetries(ctx, node, item)
		if err != nil {
			results[i] = NewErrorResult(err)''', '''		if item.IsError() {
			results[i] = item
			continue
		}
		execResult, err := runExecWithRetries(ctx, node, item)
		if err != nil {
			results[i] = NewErrorResult(err)'''),
      ("batch.go", '''			if ctx.Err() != nil {
				results[idx] = NewErrorResult(fmt.Errorf("context cancelled"))
				return
			}

			execResult, err := runExecWithRetries(ctx, node, itm)''', '''			if ctx.Err() != nil {
				results[idx] = NewErrorResult(fmt.Errorf("context cancelled"))
				return
			}
			if itm.IsError() {
				results[idx] = itm
				return
			}

			execResult, err := runExecWithRetries(ctx, node, itm)'''),
      why="an item that prep already marked as failed is not handed to exec; its error is its outcome (outside every property's quantifier)"),
    A("alt-batch-prompt-post-on-cancel", ["C06", "C11", "C09", "C07", "C08", "C20"],
      ("batch.go", '''	pool := NewWorkerPool(concurrency)
	defer pool.Close()

	var mu sync.Mutex
	shouldStop := false

	for i, item := range items {
		idx := i
		itm := item

		pool.Submit(func() {
			mu.Lock()
			if shouldStop && errorHandling == "stop" {''', '''	pool := NewWorkerPool(concurrency)

	var mu sync.Mutex
	abandoned := false
	final := results
	results = make([]Result, len(items))
	settled := make([]bool, len(items))
	finished := make(chan struct{})
	defer func() {
		select {
		case <-finished:
		case <-ctx.Done():
		}
		mu.Lock()
		abandoned = true
		for i := range final {
			if settled[i] {
				final[i] = results[i]
			} else {
				final[i] = NewErrorResult(fmt.Errorf("abandoned: %w", context.Cause(ctx)))
			}
		}
		mu.Unlock()
	}()
	go func() {
		defer close(finished)
		defer pool.Close()
		runBatchConcurrentInner(ctx, node, items, results, settled, &abandoned, pool, &mu, errorHandling)
	}()
}

func runBatchConcurrentInner(ctx context.Context, node Node, items []Result, results []Result, settled []bool, abandoned *bool, pool *WorkerPool, mu *sync.Mutex, errorHandling string) {
	shouldStop := false
	for i, item := range items {
		idx := i
		itm := item

		pool.Submit(func() {
			defer func() {
				mu.Lock()
				if !*abandoned {
					settled[idx] = true
				}
				mu.Unlock()
			}()
			mu.Lock()
			if shouldStop && errorHandling == "stop" {'''),
      why="on cancellation post is called at once; executions still in flight are abandoned with an error in their slot, late outcomes are dropped"),
    A("alt-pool-nonpositive-size-means-numcpu", ["C12"],
      ("flyt.go", '''	if workers <= 0 {
		workers = 1
	}

	p := &WorkerPool{''', '''	if workers <= 0 {
		workers = runtime.NumCPU()
	}

	p := &WorkerPool{'''),
      ("flyt.go", '''import (
''', '''import (
	"runtime"
'''),
      why="C12 gives sizes <= 0 no meaning (C08 and C19 do, and rightly alarm)"),
    A("alt-pool-close-leaves-workers", ["C08"],
      ("flyt.go", '''func (p *WorkerPool) Close() {
	close(p.done)
	close(p.tasks)
}''', '''func (p *WorkerPool) Close() {
	_ = p.done
}'''),
      why="violates C12's termination clause only; C08 speaks about the limit and its usability"),
    A("alt-store-getall-deep-copies", ["C14", "C13", "C15", "C16"],
      ("flyt.go", '''	for k, v := range s.data {
		copy[k] = v
	}
	return copy
}''', '''	for k, v := range s.data {
		copy[k] = cloneDeep(v)
	}
	return copy
}

func cloneDeep(v any) any {
	switch x := v.(type) {
	case map[string]any:
		if x == nil {
			return x
		}
		m := make(map[string]any, len(x))
		for k, e := range x {
			m[k] = cloneDeep(e)
		}
		return m
	case []any:
		if x == nil {
			return x
		}
		s := make([]any, len(x))
		for i, e := range x {
			s[i] = cloneDeep(e)
		}
		return s
	}
	return v
}'''),
      why="GetAll isolates its snapshot at every depth (stronger than the shallow copy the statement needs)"),
    A("alt-batch-goroutine-per-item-semaphore", ["C07", "C06", "C08", "C09", "C11"],
      ("batch.go", '''	pool := NewWorkerPool(concurrency)
	defer pool.Close()

	var mu sync.Mutex
	shouldStop := false
''', '''	pool := &semPool{sem: make(chan struct{}, concurrency)}

	var mu sync.Mutex
	shouldStop := false
'''),
      ("batch.go", '''func runExecWithRetries(ctx context.Context, node Node, item Result) (any, error) {''', '''type semPool struct {
	sem chan struct{}
	wg  sync.WaitGroup
}

func (p *semPool) Submit(f func()) {
	p.wg.Add(1)
	go func() {
		defer p.wg.Done()
		p.sem <- struct{}{}
		defer func() { <-p.sem }()
		f()
	}()
}

func (p *semPool) Wait() { p.wg.Wait() }

func runExecWithRetries(ctx context.Context, node Node, item Result) (any, error) {'''),
      why="one goroutine per item admitted through a counting semaphore: the start order is the scheduler's"),
    # ---- second review round, flows / nodes (A2) ----
    A("alt-batch-pool-cached-per-node", ["C20", "C04", "C02", "C17", "C19", "C06", "C07", "C08", "C09", "C11"],
      ("batch.go", '''	pool := NewWorkerPool(concurrency)
	defer pool.Close()
''', '''	var pool *WorkerPool
	if p, ok := cachedPools.Load(node); ok && p.(*cachedPool).size == concurrency {
		pool = p.(*cachedPool).pool
	} else {
		pool = NewWorkerPool(concurrency)
		cachedPools.Store(node, &cachedPool{pool: pool, size: concurrency})
	}
'''),
      ("batch.go", '''func runExecWithRetries(ctx context.Context, node Node, item Result) (any, error) {''', '''type cachedPool struct {
	pool *WorkerPool
	size int
}

var cachedPools sync.Map

func runExecWithRetries(ctx context.Context, node Node, item Result) (any, error) {'''),
      why="the worker pool of a batch node is kept for later runs of the same node (goroutines outlive the run; only C12 speaks about pool lifetime)"),
    A("alt-func-node-threads-prep-result", ["C01", "C02", "C17", "C04", "C18", "C19"],
      ("flyt.go", '''		result, err := n.prepFunc(ctx, shared)
		if err != nil {
			return nil, err
		}
		return result.Value(), nil''', '''		result, err := n.prepFunc(ctx, shared)
		if err != nil {
			return nil, err
		}
		return result, nil'''),
      ("flyt.go", '''		return n.postFunc(ctx, shared, NewResult(prepResult), exec)''', '''		prep, ok := prepResult.(Result)
		if !ok {
			prep = NewResult(prepResult)
		}
		return n.postFunc(ctx, shared, prep, exec)'''),
      ("batch.go", '''	// Convert to []Result
	var items []Result
	switch v := prepResult.(type) {''', '''	if r, ok := prepResult.(Result); ok {
		prepResult = r.Value()
	}
	// Convert to []Result
	var items []Result
	switch v := prepResult.(type) {'''),
      why="function-style nodes thread the prep Result through the phases; the fallback function receives that Result (as batch fallbacks do today)"),
    A("alt-retry-wait-with-jitter", ["C20", "C05", "C02", "C01", "C19", "C07"],
      ("flyt.go", '''			case <-time.After(wait):
				// Continue with retry''', '''			case <-time.After(wait + time.Duration(rand.Int63n(int64(wait)/4+1))):
				// Continue with retry'''),
      ("flyt.go", '''import (
''', '''import (
	"math/rand"
'''),
      ("batch.go", '''			case <-time.After(wait):''', '''			case <-time.After(wait + time.Duration(rand.Int63n(int64(wait)/4+1))):'''),
      ("batch.go", '''import (
''', '''import (
	"math/rand"
'''),
      why="random jitter on top of the configured wait (\"at least w\"): two runs of one scenario have different timelines"),
    A("alt-submillisecond-wait-slept", ["C20", "C05"],
      ("flyt.go", '''		if attempt > 0 && wait > 0 {
			select {
			case <-time.After(wait):
				// Continue with retry''', '''		if attempt > 0 && wait > 0 && wait < time.Millisecond {
			time.Sleep(wait)
			if err := ctx.Err(); err != nil {
				return "", fmt.Errorf("run: context cancelled during wait: %w", err)
			}
		} else if attempt > 0 && wait > 0 {
			select {
			case <-time.After(wait):
				// Continue with retry'''),
      why="waits below a millisecond are slept out and the context is checked afterwards (cancellation of short waits is outside C20's quantifier)"),
    A("alt-polling-wait", ["C20"],
      ("flyt.go", '''			select {
			case <-time.After(wait):
				// Continue with retry
			case <-ctx.Done():
				return "", fmt.Errorf("run: context cancelled during wait: %w", ctx.Err())
			}''', '''			nap := 5 * time.Millisecond
			if wait > time.Second {
				nap = wait / 200
			}
			for slept := time.Duration(0); slept < wait; slept += nap {
				time.Sleep(nap)
				if ctx.Err() != nil {
					return "", fmt.Errorf("run: context cancelled during wait: %w", ctx.Err())
				}
			}'''),
      why="the wait is a loop of short naps polling the context (returns within one nap of any cancellation)"),
    A("alt-batch-rejects-undocumented-prep-forms", ["C02", "C17", "C04", "C06", "C07", "C18", "C19", "C20", "C09", "C11", "C08", "C03", "C05", "C10"],
      ("batch.go", '''	default:
		// Try to convert using ToSlice
		slice := ToSlice(prepResult)
		items = make([]Result, len(slice))
		for i, item := range slice {
			items[i] = NewResult(item)
		}
	}''', '''	case nil:
	default:
		return "", fmt.Errorf("run: batch prep must return []Result or []any, got %T", prepResult)
	}'''),
      why="only []Result and []any are accepted from a batch prep"),
    A("alt-any-post-gets-error-of-error-result", ["C17", "C01", "C04"],
      ("flyt.go", '''			n.postFunc = func(ctx context.Context, shared *SharedStore, prepResult, execResult Result) (Action, error) {
				return fn(ctx, shared, prepResult.Value(), execResult.Value())
			}''', '''			n.postFunc = func(ctx context.Context, shared *SharedStore, prepResult, execResult Result) (Action, error) {
				if execResult.IsError() {
					return fn(ctx, shared, prepResult.Value(), execResult.Error())
				}
				return fn(ctx, shared, prepResult.Value(), execResult.Value())
			}'''),
      ("builder.go", '''	b.postFunc = func(ctx context.Context, shared *SharedStore, prepResult, execResult Result) (Action, error) {
		return fn(ctx, shared, prepResult.Value(), execResult.Value())
	}''', '''	b.postFunc = func(ctx context.Context, shared *SharedStore, prepResult, execResult Result) (Action, error) {
		if execResult.IsError() {
			return fn(ctx, shared, prepResult.Value(), execResult.Error())
		}
		return fn(ctx, shared, prepResult.Value(), execResult.Value())
	}'''),
      why="an Any-style post function receives the error of an error Result instead of nil"),
    A("alt-batch-without-items-is-an-error", ["C19", "C04", "C18", "C06", "C03", "C05", "C10"],
      ("batch.go", '''	// Convert to []Result
	var items []Result
	switch v := prepResult.(type) {''', '''	if prepResult == nil {
		return "", fmt.Errorf("run: batch node produced no item list")
	}
	// Convert to []Result
	var items []Result
	switch v := prepResult.(type) {'''),
      why="a batch node whose prep yields nil (e.g. no prep function) is rejected"),
    A("alt-nested-flow-scoped-store", ["C01", "C03", "C04", "C05", "C18"],
      ("flyt.go", '''		action, err := Run(ctx, current, shared)
		if err != nil {
			return nil, err
		}

		lastAction = action''', '''		var action Action
		var err error
		if sub, isFlow := current.(*Flow); isFlow {
			scoped := NewSharedStore()
			scoped.Merge(shared.GetAll())
			action, err = Run(ctx, sub, scoped)
			if err == nil {
				shared.Merge(scoped.GetAll())
			}
		} else {
			action, err = Run(ctx, current, shared)
		}
		if err != nil {
			return nil, err
		}

		lastAction = action'''),
      why="violates C10 only (a nested flow runs on a scoped store, merged back on success); the other flow checks must not report it as theirs"),
]
