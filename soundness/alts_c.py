#!/usr/bin/env python3
"""Third-round alternatives (written by the third-round reviewer of the batch/pool/store checks). Same
(file, old, new) edits as alts.py; "__POOL__" / "__STORE__" as old text replace the WorkerPool block resp.
the SharedStore core methods of flyt.go (see pool_region / store_region). PROPS lists the checks run per id."""
import glob, os, shutil, sys

ALTS = {}


def A(id, *edits, why=""):
    ALTS[id] = dict(edits=list(edits), why=why)


# ---------------------------------------------------------------- timers from a sync.Pool
A("timer-pool",
  ("flyt.go", '''			select {
			case <-time.After(wait):
				// Continue with retry
			case <-ctx.Done():
				return "", fmt.Errorf("run: context cancelled during wait: %w", ctx.Err())
			}''', '''			t := acquireTimer(wait)
			select {
			case <-t.C:
				releaseTimer(t, true)
				// Continue with retry
			case <-ctx.Done():
				releaseTimer(t, false)
				return "", fmt.Errorf("run: context cancelled during wait: %w", ctx.Err())
			}'''),
  ("flyt.go", '''// Flow represents a workflow of connected nodes.''', '''// timerPool recycles the timers used for retry waits.
var timerPool sync.Pool

func acquireTimer(d time.Duration) *time.Timer {
	if v := timerPool.Get(); v != nil {
		t := v.(*time.Timer)
		t.Reset(d)
		return t
	}
	return time.NewTimer(d)
}

func releaseTimer(t *time.Timer, fired bool) {
	if !fired && !t.Stop() {
		select {
		case <-t.C:
		default:
		}
	}
	timerPool.Put(t)
}

// Flow represents a workflow of connected nodes.'''),
  ("batch.go", '''			select {
			case <-time.After(wait):
			case <-ctx.Done():
				return nil, fmt.Errorf("context cancelled during wait: %w", ctx.Err())
			}''', '''			t := acquireTimer(wait)
			select {
			case <-t.C:
				releaseTimer(t, true)
			case <-ctx.Done():
				releaseTimer(t, false)
				return nil, fmt.Errorf("context cancelled during wait: %w", ctx.Err())
			}'''),
  why="retry waits use timers recycled through a sync.Pool (classic idiom to avoid one timer allocation per wait)")

# ---------------------------------------------------------------- sequential batches run through a one-worker pool
A("seq-via-pool1",
  ("batch.go", '''	if concurrency > 0 {
		runBatchConcurrent(ctx, node, items, results, concurrency, errorHandling)
	} else {
		runBatchSequential(ctx, node, items, results, errorHandling)
	}''', '''	if concurrency <= 0 {
		concurrency = 1 // sequential = one worker, same code path
	}
	runBatchConcurrent(ctx, node, items, results, concurrency, errorHandling)'''),
  why="sequential execution is the concurrent path with one worker (items are taken from a FIFO queue by a single worker: strictly one at a time, in item order)")

# ---------------------------------------------------------------- errgroup-style: derived context, cancelled on the first failure in stop mode
A("errgroup-derived-ctx",
  ("batch.go", '''	pool := NewWorkerPool(concurrency)
	defer pool.Close()

	var mu sync.Mutex
	shouldStop := false

	for i, item := range items {
		idx := i
		itm := item
''', '''	pool := NewWorkerPool(concurrency)
	defer pool.Close()

	parent := ctx
	ctx, cancelGroup := context.WithCancel(parent)
	defer cancelGroup()

	var mu sync.Mutex
	shouldStop := false

	for i, item := range items {
		idx := i
		itm := item
		mu.Lock()
		stopNow := shouldStop && errorHandling == "stop"
		mu.Unlock()
		if stopNow || parent.Err() != nil {
			// do not even queue the remaining items
			for j := i; j < len(items); j++ {
				if stopNow {
					results[j] = NewErrorResult(fmt.Errorf("batch stopped due to error"))
				} else {
					results[j] = NewErrorResult(fmt.Errorf("item not started: %w", parent.Err()))
				}
			}
			break
		}
'''),
  ("batch.go", '''				results[idx] = NewErrorResult(err)
				if errorHandling == "stop" {
					shouldStop = true
				}
			} else {
				if r, ok := execResult.(Result); ok {
					results[idx] = r
				} else {
					results[idx] = NewResult(execResult)
				}
			}
			mu.Unlock()
		})''', '''				results[idx] = NewErrorResult(err)
				if errorHandling == "stop" {
					shouldStop = true
					cancelGroup() // errgroup style: siblings see a cancelled context
				}
			} else {
				if r, ok := execResult.(Result); ok {
					results[idx] = r
				} else {
					results[idx] = NewResult(execResult)
				}
			}
			mu.Unlock()
		})'''),
  why="errgroup.WithContext style: item executions receive a context derived from the run's; in stop mode it is cancelled by the first failure; remaining items are not even queued")

# ---------------------------------------------------------------- typed item errors
A("item-error-wrapper",
  ("batch.go", '''// BatchNode is a marker type that indicates batch processing.''', '''// ItemError says which item of a batch failed.
type ItemError struct {
	Index int
	Err   error
}

func (e *ItemError) Error() string { return fmt.Sprintf("batch item %d: %v", e.Index, e.Err) }
func (e *ItemError) Unwrap() error { return e.Err }

// BatchNode is a marker type that indicates batch processing.'''),
  ("batch.go", '''		execResult, err := runExecWithRetries(ctx, node, item)
		if err != nil {
			results[i] = NewErrorResult(err)''', '''		execResult, err := runExecWithRetries(ctx, node, item)
		if err != nil {
			results[i] = NewErrorResult(&ItemError{Index: i, Err: err})'''),
  ("batch.go", '''			if err != nil {
				results[idx] = NewErrorResult(err)
				if errorHandling == "stop" {''', '''			if err != nil {
				results[idx] = NewErrorResult(&ItemError{Index: idx, Err: err})
				if errorHandling == "stop" {'''),
  ("batch.go", '''				if r, ok := execResult.(Result); ok {
					results[idx] = r
				} else {''', '''				if r, ok := execResult.(Result); ok {
					if r.IsError() {
						r = NewErrorResult(&ItemError{Index: idx, Err: r.Error()})
					}
					results[idx] = r
				} else {'''),
  ("batch.go", '''			if r, ok := execResult.(Result); ok {
				results[i] = r
			} else {''', '''			if r, ok := execResult.(Result); ok {
				if r.IsError() {
					r = NewErrorResult(&ItemError{Index: i, Err: r.Error()})
				}
				results[i] = r
			} else {'''),
  why="every error slot is an *ItemError{Index, Err} wrapping the item's error (errors.Is/As still reach it)")

# ---------------------------------------------------------------- post gets defensive copies, slots filled via a collector channel
A("collector-and-copies",
  ("batch.go", '''	// Post phase - called once with all results
	action, err := node.Post(ctx, shared, items, results)''', '''	// Post phase - called once with all results (defensive copies: post may keep or modify them)
	action, err := node.Post(ctx, shared, append(make([]Result, 0, len(items)), items...), append(make([]Result, 0, len(results)), results...))'''),
  ("batch.go", '''	var mu sync.Mutex
	shouldStop := false

	for i, item := range items {
		idx := i
		itm := item

		pool.Submit(func() {''', '''	var mu sync.Mutex
	shouldStop := false

	type outcome struct {
		idx int
		res Result
	}
	out := make(chan outcome)
	collected := make(chan struct{})
	final := results
	go func() {
		defer close(collected)
		for o := range out {
			final[o.idx] = o.res
		}
	}()
	results = make([]Result, len(items)) // workers write here, then report through the channel
	defer func() {
		close(out)
		<-collected
	}()

	for i, item := range items {
		idx := i
		itm := item

		pool.Submit(func() {
			defer func() { out <- outcome{idx, results[idx]} }()'''),
  why="workers report (index, outcome) over a channel to a collector goroutine that fills the slots; post receives copies of both slices")

# ---------------------------------------------------------------- batch without an exec function is rejected
A("batch-requires-exec",
  ("batch.go", '''	// Prep phase - returns []Result
	prepResult, err := node.Prep(ctx, shared)''', '''	if bn, ok := node.(*BatchNode); ok && bn.CustomNode != nil && bn.execFunc == nil {
		return "", fmt.Errorf("run: batch node has no exec function")
	}
	// Prep phase - returns []Result
	prepResult, err := node.Prep(ctx, shared)'''),
  why="a batch node that was never given an exec function is a configuration error and is rejected before anything runs")

# ---------------------------------------------------------------- worker pool: mutex+cond, unbounded queue, lazily spawned workers, Close joins
POOL_COND = '''type WorkerPool struct {
	workers int
	mu      sync.Mutex
	cond    *sync.Cond
	idle    *sync.Cond
	queue   []func()
	running int // worker goroutines alive
	pending int // tasks submitted and not yet finished
	closed  bool
	exited  sync.WaitGroup
}

func NewWorkerPool(workers int) *WorkerPool {
	if workers <= 0 {
		workers = 1
	}
	p := &WorkerPool{workers: workers}
	p.cond = sync.NewCond(&p.mu)
	p.idle = sync.NewCond(&p.mu)
	return p
}

func (p *WorkerPool) worker() {
	defer p.exited.Done()
	p.mu.Lock()
	for {
		for len(p.queue) == 0 && !p.closed {
			p.cond.Wait()
		}
		if len(p.queue) == 0 && p.closed {
			p.running--
			p.mu.Unlock()
			return
		}
		task := p.queue[0]
		p.queue[0] = nil
		p.queue = p.queue[1:]
		p.mu.Unlock()
		task()
		p.mu.Lock()
		p.pending--
		if p.pending == 0 {
			p.idle.Broadcast()
		}
	}
}

// Submit submits a task to the pool for execution (the queue is unbounded: Submit never drops).
func (p *WorkerPool) Submit(task func()) {
	p.mu.Lock()
	p.pending++
	p.queue = append(p.queue, task)
	if p.running < p.workers && p.running < p.pending {
		p.running++
		p.exited.Add(1)
		go p.worker()
	}
	p.mu.Unlock()
	p.cond.Signal()
}

// Wait waits for all submitted tasks to complete.
func (p *WorkerPool) Wait() {
	p.mu.Lock()
	for p.pending > 0 {
		p.idle.Wait()
	}
	p.mu.Unlock()
}

// Close closes the worker pool and waits for all workers to finish.
func (p *WorkerPool) Close() {
	p.mu.Lock()
	p.closed = true
	p.mu.Unlock()
	p.cond.Broadcast()
	p.exited.Wait()
}
'''

A("pool-cond-unbounded",
  ("flyt.go", "__POOL__", POOL_COND),
  why="worker pool built on a mutex, two condition variables and an unbounded slice queue; workers are spawned lazily (at most `workers`), Close joins them")

# ---------------------------------------------------------------- worker pool: no resident workers at all
POOL_ELASTIC = '''type WorkerPool struct {
	workers int
	mu      sync.Mutex
	queue   []func()
	running int
	wg      sync.WaitGroup
}

func NewWorkerPool(workers int) *WorkerPool {
	if workers <= 0 {
		workers = 1
	}
	return &WorkerPool{workers: workers}
}

// Submit submits a task: it is handed to a fresh goroutine while fewer than `workers` are
// running, otherwise queued; a goroutine that finishes a task takes the next queued one or exits.
func (p *WorkerPool) Submit(task func()) {
	p.wg.Add(1)
	p.mu.Lock()
	if p.running < p.workers {
		p.running++
		p.mu.Unlock()
		go p.run(task)
		return
	}
	p.queue = append(p.queue, task)
	p.mu.Unlock()
}

func (p *WorkerPool) run(task func()) {
	for {
		func() {
			defer p.wg.Done()
			task()
		}()
		p.mu.Lock()
		if len(p.queue) == 0 {
			p.running--
			p.mu.Unlock()
			return
		}
		task = p.queue[0]
		p.queue[0] = nil
		p.queue = p.queue[1:]
		p.mu.Unlock()
	}
}

// Wait waits for all submitted tasks to complete.
func (p *WorkerPool) Wait() { p.wg.Wait() }

// Close releases the pool. There are no resident workers: goroutines exist only while tasks run.
func (p *WorkerPool) Close() {}
'''

A("pool-cond-lifo",
  ("flyt.go", "__POOL__", POOL_COND.replace("""		task := p.queue[0]
		p.queue[0] = nil
		p.queue = p.queue[1:]""", """		task := p.queue[len(p.queue)-1]
		p.queue[len(p.queue)-1] = nil
		p.queue = p.queue[:len(p.queue)-1]""")),
  why="as pool-cond-unbounded, but idle workers take the most recently submitted task first (LIFO)")

A("pool-elastic",
  ("flyt.go", "__POOL__", POOL_ELASTIC),
  why="no resident workers: a goroutine is started per task while fewer than `workers` run, finished goroutines take over queued tasks or exit; Close has nothing to stop")

# ---------------------------------------------------------------- store: copy-on-write
STORE_COW_HEAD = '''type SharedStore struct {
	mu   sync.Mutex // serialises writers
	data atomic.Pointer[map[string]any]
}

// NewSharedStore creates a new thread-safe shared store.
func NewSharedStore() *SharedStore {
	s := &SharedStore{}
	m := map[string]any{}
	s.data.Store(&m)
	return s
}

func (s *SharedStore) snapshot() map[string]any { return *s.data.Load() }

func (s *SharedStore) update(extra int, f func(m map[string]any)) {
	s.mu.Lock()
	defer s.mu.Unlock()
	old := s.snapshot()
	m := make(map[string]any, len(old)+extra)
	for k, v := range old {
		m[k] = v
	}
	f(m)
	s.data.Store(&m)
}

func (s *SharedStore) Get(key string) (any, bool) {
	val, ok := s.snapshot()[key]
	return val, ok
}

func (s *SharedStore) Set(key string, value any) {
	s.update(1, func(m map[string]any) { m[key] = value })
}

func (s *SharedStore) GetAll() map[string]any {
	snap := s.snapshot()
	copy := make(map[string]any, len(snap))
	for k, v := range snap {
		copy[k] = v
	}
	return copy
}

func (s *SharedStore) Merge(data map[string]any) {
	if data == nil {
		return
	}
	s.update(len(data), func(m map[string]any) {
		for k, v := range data {
			m[k] = v
		}
	})
}

func (s *SharedStore) Has(key string) bool {
	_, ok := s.snapshot()[key]
	return ok
}

func (s *SharedStore) Delete(key string) {
	s.update(0, func(m map[string]any) { delete(m, key) })
}

func (s *SharedStore) Clear() {
	s.mu.Lock()
	defer s.mu.Unlock()
	m := map[string]any{}
	s.data.Store(&m)
}

func (s *SharedStore) Keys() []string {
	snap := s.snapshot()
	keys := make([]string, 0, len(snap))
	for k := range snap {
		keys = append(keys, k)
	}
	return keys
}

func (s *SharedStore) Len() int { return len(s.snapshot()) }

'''

A("store-cow",
  ("flyt.go", "__STORE__", STORE_COW_HEAD),
  ("flyt.go", '''	"sync"
	"time"
)''', '''	"sync"
	"sync/atomic"
	"time"
)'''),
  why="copy-on-write store: readers load an immutable map through an atomic pointer, writers (serialised by a mutex) publish a modified copy")

# ---------------------------------------------------------------- store: sharded, lazily allocated
STORE_SHARDED = '''const storeShards = 8

type storeShard struct {
	mu   sync.RWMutex
	data map[string]any // nil until the first write
}

type SharedStore struct {
	shards [storeShards]storeShard
}

// NewSharedStore creates a new thread-safe shared store.
func NewSharedStore() *SharedStore { return &SharedStore{} }

func (s *SharedStore) shard(key string) *storeShard {
	h := uint32(2166136261)
	for i := 0; i < len(key); i++ {
		h = (h ^ uint32(key[i])) * 16777619
	}
	return &s.shards[h%storeShards]
}

func (s *SharedStore) lockAll(write bool) func() {
	for i := range s.shards {
		if write {
			s.shards[i].mu.Lock()
		} else {
			s.shards[i].mu.RLock()
		}
	}
	return func() {
		for i := range s.shards {
			if write {
				s.shards[i].mu.Unlock()
			} else {
				s.shards[i].mu.RUnlock()
			}
		}
	}
}

func (s *SharedStore) Get(key string) (any, bool) {
	sh := s.shard(key)
	sh.mu.RLock()
	defer sh.mu.RUnlock()
	val, ok := sh.data[key]
	return val, ok
}

func (s *SharedStore) Set(key string, value any) {
	sh := s.shard(key)
	sh.mu.Lock()
	defer sh.mu.Unlock()
	if sh.data == nil {
		sh.data = make(map[string]any)
	}
	sh.data[key] = value
}

func (s *SharedStore) GetAll() map[string]any {
	defer s.lockAll(false)()
	copy := make(map[string]any)
	for i := range s.shards {
		for k, v := range s.shards[i].data {
			copy[k] = v
		}
	}
	return copy
}

func (s *SharedStore) Merge(data map[string]any) {
	if data == nil {
		return
	}
	defer s.lockAll(true)()
	for k, v := range data {
		sh := s.shard(k)
		if sh.data == nil {
			sh.data = make(map[string]any)
		}
		sh.data[k] = v
	}
}

func (s *SharedStore) Has(key string) bool {
	_, ok := s.Get(key)
	return ok
}

func (s *SharedStore) Delete(key string) {
	sh := s.shard(key)
	sh.mu.Lock()
	defer sh.mu.Unlock()
	delete(sh.data, key)
}

func (s *SharedStore) Clear() {
	defer s.lockAll(true)()
	for i := range s.shards {
		s.shards[i].data = nil
	}
}

func (s *SharedStore) Keys() []string {
	defer s.lockAll(false)()
	var keys []string // nil when the store is empty
	for i := range s.shards {
		for k := range s.shards[i].data {
			keys = append(keys, k)
		}
	}
	return keys
}

func (s *SharedStore) Len() int {
	defer s.lockAll(false)()
	n := 0
	for i := range s.shards {
		n += len(s.shards[i].data)
	}
	return n
}

'''

A("store-sharded",
  ("flyt.go", "__STORE__", STORE_SHARDED),
  why="store sharded 8 ways by key hash; single-key operations lock one shard, multi-key operations (GetAll, Merge, Clear, Keys, Len) lock all shards in index order; shard maps are allocated lazily, Keys() of an empty store is nil")

# ---------------------------------------------------------------- accessors share one implementation, ToSlice always copies
A("accessors-shared",
  ("flyt.go", '''func (s *SharedStore) GetIntOr(key string, defaultVal int) int {
	val, ok := s.Get(key)
	if !ok {
		return defaultVal
	}

	switch v := val.(type) {''', '''func (s *SharedStore) GetIntOr(key string, defaultVal int) int {
	val, ok := s.Get(key)
	if !ok {
		return defaultVal
	}
	if true {
		return NewResult(val).AsIntOr(defaultVal)
	}

	switch v := val.(type) {'''),
  ("flyt.go", '''func (s *SharedStore) GetFloat64Or(key string, defaultVal float64) float64 {
	val, ok := s.Get(key)
	if !ok {
		return defaultVal
	}

	switch v := val.(type) {''', '''func (s *SharedStore) GetFloat64Or(key string, defaultVal float64) float64 {
	val, ok := s.Get(key)
	if !ok {
		return defaultVal
	}
	if true {
		return NewResult(val).AsFloat64Or(defaultVal)
	}

	switch v := val.(type) {'''),
  ("flyt.go", '''	// Use ToSlice for conversion which handles various slice types
	if val == nil {
		return defaultVal
	}

	// Check if it's already []any
	if slice, ok := val.([]any); ok {
		return slice
	}

	// ToSlice wraps non-slice values, so only convert actual slices
	if reflect.ValueOf(val).Kind() != reflect.Slice {
		return defaultVal
	}
	return ToSlice(val)''', '''	if out, ok := NewResult(val).AsSlice(); ok {
		return out
	}
	return defaultVal'''),
  ("flyt.go", '''func ToSlice(v any) []any {
	if v == nil {
		return []any{}
	}

	switch val := v.(type) {
	case []any:
		return val''', '''func ToSlice(v any) []any {
	if v == nil {
		return nil // an empty slice
	}
	if rv := reflect.ValueOf(v); rv.Kind() == reflect.Slice {
		// always a fresh []any, whatever the element type (never aliases the argument)
		if rv.Len() == 0 {
			return nil
		}
		result := make([]any, rv.Len())
		for i := range result {
			result[i] = rv.Index(i).Interface()
		}
		return result
	}

	switch val := v.(type) {
	case []any:
		return val'''),
  ("result.go", '''	// Check if it's already []any
	if slice, ok := r.value.([]any); ok {
		return slice, true
	}

	// ToSlice wraps non-slice values, so only convert actual slices''', '''	// ToSlice wraps non-slice values, so only convert actual slices'''),
  ("result.go", '''	switch v := r.value.(type) {
	case int:
		return v, true
	case int8:
		return int(v), true''', '''	if rv := reflect.ValueOf(r.value); rv.Type().PkgPath() == "" {
		// builtin numeric types only (named types have a package path)
		switch rv.Kind() {
		case reflect.Int, reflect.Int8, reflect.Int16, reflect.Int32, reflect.Int64:
			return int(rv.Int()), true
		case reflect.Uint, reflect.Uint8, reflect.Uint16, reflect.Uint32, reflect.Uint64:
			return int(rv.Uint()), true
		case reflect.Float32, reflect.Float64:
			return int(rv.Float()), true
		}
		return 0, false
	}
	switch v := r.value.(type) {
	case int:
		return v, true
	case int8:
		return int(v), true'''),
  why="store getters delegate to the Result accessors; AsInt converts through reflect (builtin numeric types only); ToSlice always builds a fresh []any and renders 'empty' as a nil slice")

# ---------------------------------------------------------------- Bind variants
BIND_CLONE = '''	if valType == destType {
		rv.Elem().Set(cloneContainer(reflect.ValueOf(%s)))
		return nil
	}'''
A("bind-clones-container",
  ("flyt.go", '''	if valType == destType {
		rv.Elem().Set(reflect.ValueOf(val))
		return nil
	}''', BIND_CLONE % "val"),
  ("result.go", '''	if valType == destType {
		rv.Elem().Set(reflect.ValueOf(r.value))
		return nil
	}''', BIND_CLONE % "r.value"),
  ("result.go", '''// MustBind is like Bind but panics if binding fails.''', '''// cloneContainer gives the caller its own top-level map or slice (as the JSON path does), so
// that adding to or reordering the bound container never touches the bound-from value.
func cloneContainer(v reflect.Value) reflect.Value {
	switch v.Kind() {
	case reflect.Map:
		if v.IsNil() {
			return v
		}
		m := reflect.MakeMapWithSize(v.Type(), v.Len())
		it := v.MapRange()
		for it.Next() {
			m.SetMapIndex(it.Key(), it.Value())
		}
		return m
	case reflect.Slice:
		if v.IsNil() {
			return v
		}
		s := reflect.MakeSlice(v.Type(), v.Len(), v.Len())
		reflect.Copy(s, v)
		return s
	}
	return v
}

// MustBind is like Bind but panics if binding fails.'''),
  why="binding into a destination of the value's own type copies it unchanged, and a map or slice is copied into a fresh container (like the JSON path, the result never aliases the source container)")

BIND_RESTORE = '''	backup := reflect.New(destType).Elem()
	backup.Set(rv.Elem())
	if err := json.Unmarshal(jsonBytes, dest); err != nil {
		rv.Elem().Set(backup) // a failed Bind leaves the destination as it was
		return fmt.Errorf("failed to unmarshal to destination: %w", err)
	}'''
A("bind-restores-dest",
  ("flyt.go", '''	if err := json.Unmarshal(jsonBytes, dest); err != nil {
		return fmt.Errorf("failed to unmarshal to destination: %w", err)
	}''', BIND_RESTORE),
  ("result.go", '''	if err := json.Unmarshal(jsonBytes, dest); err != nil {
		return fmt.Errorf("failed to unmarshal to destination: %w", err)
	}''', BIND_RESTORE),
  why="when decoding fails the destination is put back to what it held before the call (no half-decoded destination next to a non-nil error)")

A("bind-typed-nil-error",
  ("flyt.go", '''	// Check if dest is a pointer
	rv := reflect.ValueOf(dest)
	if rv.Kind() != reflect.Ptr || rv.IsNil() {
		return fmt.Errorf("destination must be a non-nil pointer")
	}

	// If val is already the correct type, assign directly''', '''	if isNilValue(val) && val != nil {
		return fmt.Errorf("cannot bind nil value stored under %q", key)
	}

	// Check if dest is a pointer
	rv := reflect.ValueOf(dest)
	if rv.Kind() != reflect.Ptr || rv.IsNil() {
		return fmt.Errorf("destination must be a non-nil pointer")
	}

	// If val is already the correct type, assign directly'''),
  ("result.go", '''	if r.value == nil {
		return fmt.Errorf("cannot bind nil Result value")
	}
''', '''	if isNilValue(r.value) {
		return fmt.Errorf("cannot bind nil Result value")
	}
'''),
  ("result.go", '''// MustBind is like Bind but panics if binding fails.''', '''// isNilValue: nil, or a nil pointer / map / slice / func / chan / interface held in an interface.
func isNilValue(v any) bool {
	if v == nil {
		return true
	}
	switch rv := reflect.ValueOf(v); rv.Kind() {
	case reflect.Ptr, reflect.Map, reflect.Slice, reflect.Func, reflect.Chan, reflect.Interface, reflect.UnsafePointer:
		return rv.IsNil()
	}
	return false
}

// MustBind is like Bind but panics if binding fails.'''),
  why="a nil pointer, map, slice, func or chan is a nil value too: Bind reports 'cannot bind nil' for it instead of decoding JSON null into the destination")

BIND_STREAM = '''	buf := bindBuffers.Get().(*bytes.Buffer)
	buf.Reset()
	defer bindBuffers.Put(buf)
	if err := json.NewEncoder(buf).Encode(%s); err != nil {
		return fmt.Errorf("failed to marshal value: %%w", err)
	}
	if err := json.NewDecoder(buf).Decode(dest); err != nil {
		return fmt.Errorf("failed to unmarshal to destination: %%w", err)
	}

	return nil
}'''
A("bind-streaming",
  ("flyt.go", '''	// Otherwise use JSON as intermediate format
	jsonBytes, err := json.Marshal(val)
	if err != nil {
		return fmt.Errorf("failed to marshal value: %w", err)
	}

	if err := json.Unmarshal(jsonBytes, dest); err != nil {
		return fmt.Errorf("failed to unmarshal to destination: %w", err)
	}

	return nil
}''', BIND_STREAM % "val"),
  ("result.go", '''	// Otherwise use JSON as intermediate format
	jsonBytes, err := json.Marshal(r.value)
	if err != nil {
		return fmt.Errorf("failed to marshal Result: %w", err)
	}

	if err := json.Unmarshal(jsonBytes, dest); err != nil {
		return fmt.Errorf("failed to unmarshal to destination: %w", err)
	}

	return nil
}''', BIND_STREAM % "r.value"),
  ("result.go", '''import (
	"encoding/json"''', '''import (
	"bytes"
	"sync"
	"encoding/json"'''),
  ("flyt.go", '''import (
	"context"''', '''import (
	"bytes"
	"context"'''),
  ("result.go", '''// MustBind is like Bind but panics if binding fails.''', '''var bindBuffers = sync.Pool{New: func() any { return new(bytes.Buffer) }}

// MustBind is like Bind but panics if binding fails.'''),
  why="JSON round trip through json.Encoder/json.Decoder on a bytes.Buffer recycled in a sync.Pool")


# ---------------------------------------------------------------- store keeps its own shallow copy of container values
A("store-set-clones",
  ("flyt.go", '''func (s *SharedStore) Set(key string, value any) {
	s.mu.Lock()
	defer s.mu.Unlock()
	s.data[key] = value
}''', '''func (s *SharedStore) Set(key string, value any) {
	value = ownCopy(value)
	s.mu.Lock()
	defer s.mu.Unlock()
	s.data[key] = value
}

// ownCopy: the store keeps its own top-level copy of map[string]any and []any values, so that a
// caller who goes on filling the map it just stored does not race with readers of the store.
func ownCopy(v any) any {
	switch x := v.(type) {
	case map[string]any:
		if x == nil {
			return x
		}
		m := make(map[string]any, len(x))
		for k, e := range x {
			m[k] = e
		}
		return m
	case []any:
		if x == nil {
			return x
		}
		return append(make([]any, 0, len(x)), x...)
	}
	return v
}'''),
  ("flyt.go", '''	for k, v := range data {
		s.data[k] = v
	}
}''', '''	for k, v := range data {
		s.data[k] = ownCopy(v)
	}
}'''),
  why="Set and Merge store a top-level copy of map[string]any / []any values (the store owns what it holds); every answer still equals the plain map's answer, only the container's identity differs")


# ---------------------------------------------------------------- fallback gets a wrapped error
A("fallback-wrapped-error",
  ("batch.go", '''			return fallback.ExecFallback(item, execErr)''', '''			return fallback.ExecFallback(item, fmt.Errorf("exec failed after %d attempts: %w", maxRetries, execErr))'''),
  ("flyt.go", '''			execResult, execErr = fallback.ExecFallback(prepResult, execErr)''', '''			execResult, execErr = fallback.ExecFallback(prepResult, fmt.Errorf("exec failed after %d attempts: %w", maxRetries, execErr))'''),
  why="the fallback receives the last attempt's error wrapped with the attempt count")


# ---------------------------------------------------------------- batch prep only through the builder's WithPrepFunc
A("batch-prep-builder-only",
  ("batch.go", '''	// Fallback to CustomNode's Prep
	return n.CustomNode.Prep(ctx, shared)''', '''	// no batch prep function: nothing to process
	return []Result{}, nil'''),
  why="a batch node's items come from the function given to WithPrepFunc only; the embedded CustomNode's prep function (reachable only by replacing the exported embedded field) is not consulted")


# ---------------------------------------------------------------- retry wait through a derived context with timeout
A("wait-via-ctx-timeout",
  ("flyt.go", '''			select {
			case <-time.After(wait):
				// Continue with retry
			case <-ctx.Done():
				return "", fmt.Errorf("run: context cancelled during wait: %w", ctx.Err())
			}''', '''			if err := sleepCtx(ctx, wait); err != nil {
				return "", fmt.Errorf("run: context cancelled during wait: %w", err)
			}'''),
  ("flyt.go", '''// Flow represents a workflow of connected nodes.''', '''// sleepCtx waits for d or until ctx is done (then it returns ctx's error).
func sleepCtx(ctx context.Context, d time.Duration) error {
	wctx, cancel := context.WithTimeout(ctx, d)
	defer cancel()
	<-wctx.Done()
	return ctx.Err() // nil when only the wait's own timeout fired
}

// Flow represents a workflow of connected nodes.'''),
  ("batch.go", '''			select {
			case <-time.After(wait):
			case <-ctx.Done():
				return nil, fmt.Errorf("context cancelled during wait: %w", ctx.Err())
			}''', '''			if err := sleepCtx(ctx, wait); err != nil {
				return nil, fmt.Errorf("context cancelled during wait: %w", err)
			}'''),
  why="the retry wait is a context.WithTimeout derived from the run's context; when it ends the run's own context decides whether it was a cancellation")


def pool_region(src):
    a = src.index("type WorkerPool struct {")
    b = src.index("// ToSlice converts various types")
    return a, b


def store_region(src):
    a = src.index("type SharedStore struct {")
    b = src.index("// GetString retrieves a string value from the store.")
    return a, b


BATCH = ["C06", "C07", "C08", "C09", "C11", "C20", "C02"]
POOL = ["C08", "C12", "C06", "C09", "C19"]
STORE = ["C13", "C14", "C15", "C16"]
PROPS = {
    "timer-pool": [],  # dies with a fatal synctest error (objects recycled across bubbles): exit 2, documented
    "seq-via-pool1": BATCH, "errgroup-derived-ctx": BATCH, "item-error-wrapper": BATCH + ["C04", "C17"],
    "collector-and-copies": BATCH + ["C17"], "batch-requires-exec": ["C19", "C06", "C18"],
    "pool-cond-unbounded": POOL, "pool-cond-lifo": POOL, "pool-elastic": POOL,
    "store-cow": STORE, "store-sharded": STORE, "accessors-shared": STORE, "bind-clones-container": STORE,
    "bind-restores-dest": ["C16"], "bind-typed-nil-error": ["C16", "C15", "C13"], "bind-streaming": ["C16", "C13"],
    "store-set-clones": STORE, "fallback-wrapped-error": ["C02", "C07", "C04", "C01"],
    "batch-prep-builder-only": BATCH + ["C17", "C18", "C19", "C04"], "wait-via-ctx-timeout": ["C20", "C05", "C02", "C07", "C11"],
}
