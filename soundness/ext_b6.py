#!/usr/bin/env python3
"""Sixth-round alternatives of reviewer B6: feature work and its side effects on the existing paths."""
ALTS = {}


def A(id, *edits, why=""):
    ALTS[id] = dict(edits=list(edits), why=why)


RB = "// runBatch handles the execution of batch nodes"
RS = "func runBatchSequential("
RC = "func runBatchConcurrent("
RE = "func runExecWithRetries("
BN_OLD = '''	batchPostFunc func(context.Context, *SharedStore, []Result, []Result) (Action, error)
}
'''

# ------------------------------------------------------------------------------------------
# 1. progress callbacks: every slot is settled through a tracker (atomic counters, serialised callback)
A("progress",
  ("batch.go", '''import (
	"context"
	"fmt"
	"sync"
	"time"
)''', '''import (
	"context"
	"fmt"
	"sync"
	"sync/atomic"
	"time"
)

// BatchProgress describes how far a batch run has come.
type BatchProgress struct {
	Done   int // slots settled so far (executed, skipped or cancelled)
	Failed int // of those, slots holding an error
	Total  int
}

// batchTracker settles result slots and reports progress.
type batchTracker struct {
	results []Result
	done    atomic.Int64
	failed  atomic.Int64
	mu      sync.Mutex // serialises the user's callback
	fn      func(BatchProgress)
}

func newBatchTracker(node Node, n int) *batchTracker {
	t := &batchTracker{results: make([]Result, n)}
	switch b := node.(type) {
	case *BatchNode:
		t.fn = b.progressFunc
	case *BatchNodeBuilder:
		t.fn = b.progressFunc
	}
	return t
}

// settle stores the outcome of item idx (each index is settled exactly once, by one goroutine).
func (t *batchTracker) settle(idx int, r Result) {
	t.results[idx] = r
	if r.IsError() {
		t.failed.Add(1)
	}
	d := t.done.Add(1)
	if t.fn == nil {
		return
	}
	t.mu.Lock()
	t.fn(BatchProgress{Done: int(d), Failed: int(t.failed.Load()), Total: len(t.results)})
	t.mu.Unlock()
}

func (t *batchTracker) settleOutcome(idx int, execResult any, err error) {
	switch {
	case err != nil:
		t.settle(idx, NewErrorResult(err))
	default:
		if r, ok := execResult.(Result); ok {
			t.settle(idx, r)
		} else {
			t.settle(idx, NewResult(execResult))
		}
	}
}'''),
  ("batch.go", BN_OLD, '''	batchPostFunc func(context.Context, *SharedStore, []Result, []Result) (Action, error)
	progressFunc  func(BatchProgress)
}

// WithProgressFunc installs a callback that is invoked (serialised) after every settled item.
func (b *BatchNodeBuilder) WithProgressFunc(fn func(BatchProgress)) *BatchNodeBuilder {
	b.progressFunc = fn
	return b
}
'''),
  ("batch.go", '''	// Execute items
	results := make([]Result, len(items))

	if concurrency > 0 {
		runBatchConcurrent(ctx, node, items, results, concurrency, errorHandling)
	} else {
		runBatchSequential(ctx, node, items, results, errorHandling)
	}
''', '''	// Execute items
	tracker := newBatchTracker(node, len(items))
	results := tracker.results

	if concurrency > 0 {
		runBatchConcurrent(ctx, node, items, tracker, concurrency, errorHandling)
	} else {
		runBatchSequential(ctx, node, items, tracker, errorHandling)
	}
'''),
  ("batch.go", (RS, RE), '''func runBatchSequential(ctx context.Context, node Node, items []Result, t *batchTracker, errorHandling string) {
	stopped := false
	for i, item := range items {
		switch {
		case stopped:
			// Items that were never processed must not look like successful (zero) results
			t.settle(i, NewErrorResult(fmt.Errorf("batch stopped due to error")))
			continue
		case ctx.Err() != nil:
			t.settle(i, NewErrorResult(fmt.Errorf("context cancelled")))
			stopped = errorHandling == "stop"
			continue
		}
		execResult, err := runExecWithRetries(ctx, node, item)
		t.settleOutcome(i, execResult, err)
		if err != nil && errorHandling == "stop" {
			stopped = true
		}
	}
}

func runBatchConcurrent(ctx context.Context, node Node, items []Result, t *batchTracker, concurrency int, errorHandling string) {
	pool := NewWorkerPool(concurrency)
	defer pool.Close()

	var mu sync.Mutex
	shouldStop := false

	for i, item := range items {
		idx := i
		itm := item

		pool.Submit(func() {
			mu.Lock()
			stop := shouldStop && errorHandling == "stop"
			mu.Unlock()
			if stop {
				t.settle(idx, NewErrorResult(fmt.Errorf("batch stopped due to error")))
				return
			}
			if ctx.Err() != nil {
				t.settle(idx, NewErrorResult(fmt.Errorf("context cancelled")))
				return
			}

			execResult, err := runExecWithRetries(ctx, node, itm)
			if err != nil && errorHandling == "stop" {
				mu.Lock()
				shouldStop = true
				mu.Unlock()
			}
			t.settleOutcome(idx, execResult, err)
		})
	}

	pool.Wait()
}

'''),
  why="batch progress callback (none by default): every slot is settled through a tracker with atomic done/failed counters; the stop flag is raised before the failing slot is written")

# ------------------------------------------------------------------------------------------
# 2. result streaming to a channel in addition to the slots, ordered or unordered
A("stream",
  ("batch.go", BN_OLD, '''	batchPostFunc func(context.Context, *SharedStore, []Result, []Result) (Action, error)
	stream        chan<- BatchItemResult
	streamOrdered bool
}

// BatchItemResult is what a batch run streams for every settled item.
type BatchItemResult struct {
	Index  int
	Item   Result
	Result Result
}

// WithResultStream makes the batch send every settled item to ch (in addition to the result
// list handed to post). ordered=true delivers in item order, false in completion order.
// The channel is not closed by the batch.
func (b *BatchNodeBuilder) WithResultStream(ch chan<- BatchItemResult, ordered bool) *BatchNodeBuilder {
	b.stream, b.streamOrdered = ch, ordered
	return b
}

// batchSink writes result slots and feeds the optional stream.
type batchSink struct {
	ctx     context.Context
	items   []Result
	results []Result
	ch      chan<- BatchItemResult
	ordered bool
	mu      sync.Mutex
	next    int
	ready   []bool
}

func newBatchSink(ctx context.Context, node Node, items []Result) *batchSink {
	s := &batchSink{ctx: ctx, items: items, results: make([]Result, len(items))}
	if b, ok := node.(*BatchNode); ok && b.stream != nil {
		s.ch, s.ordered = b.stream, b.streamOrdered
		if s.ordered {
			s.ready = make([]bool, len(items))
		}
	}
	return s
}

func (s *batchSink) put(idx int, r Result) {
	s.results[idx] = r
	if s.ch == nil {
		return
	}
	if !s.ordered {
		s.send(idx)
		return
	}
	s.mu.Lock()
	s.ready[idx] = true
	for s.next < len(s.ready) && s.ready[s.next] {
		s.send(s.next)
		s.next++
	}
	s.mu.Unlock()
}

func (s *batchSink) send(idx int) {
	select {
	case s.ch <- BatchItemResult{Index: idx, Item: s.items[idx], Result: s.results[idx]}:
	case <-s.ctx.Done():
	}
}

func (s *batchSink) putOutcome(idx int, execResult any, err error) {
	if err != nil {
		s.put(idx, NewErrorResult(err))
	} else if r, ok := execResult.(Result); ok {
		s.put(idx, r)
	} else {
		s.put(idx, NewResult(execResult))
	}
}
'''),
  ("batch.go", '''	// Execute items
	results := make([]Result, len(items))

	if concurrency > 0 {
		runBatchConcurrent(ctx, node, items, results, concurrency, errorHandling)
	} else {
		runBatchSequential(ctx, node, items, results, errorHandling)
	}
''', '''	// Execute items
	sink := newBatchSink(ctx, node, items)
	results := sink.results

	if concurrency > 0 {
		runBatchConcurrent(ctx, node, sink, concurrency, errorHandling)
	} else {
		runBatchSequential(ctx, node, sink, errorHandling)
	}
'''),
  ("batch.go", (RS, RE), '''func runBatchSequential(ctx context.Context, node Node, sink *batchSink, errorHandling string) {
	n := len(sink.items)
	i := 0
	for ; i < n; i++ {
		if ctx.Err() != nil {
			sink.put(i, NewErrorResult(fmt.Errorf("context cancelled")))
			if errorHandling == "stop" {
				i++
				break
			}
			continue
		}
		execResult, err := runExecWithRetries(ctx, node, sink.items[i])
		sink.putOutcome(i, execResult, err)
		if err != nil && errorHandling == "stop" {
			i++
			break
		}
	}
	// Items that were never processed must not look like successful (zero) results
	for ; i < n; i++ {
		sink.put(i, NewErrorResult(fmt.Errorf("batch stopped due to error")))
	}
}

func runBatchConcurrent(ctx context.Context, node Node, sink *batchSink, concurrency int, errorHandling string) {
	pool := NewWorkerPool(concurrency)
	defer pool.Close()

	var mu sync.Mutex
	shouldStop := false

	for i := range sink.items {
		idx := i
		pool.Submit(func() {
			mu.Lock()
			stop := shouldStop && errorHandling == "stop"
			mu.Unlock()
			switch {
			case stop:
				sink.put(idx, NewErrorResult(fmt.Errorf("batch stopped due to error")))
				return
			case ctx.Err() != nil:
				sink.put(idx, NewErrorResult(fmt.Errorf("context cancelled")))
				return
			}
			execResult, err := runExecWithRetries(ctx, node, sink.items[idx])
			mu.Lock()
			if err != nil && errorHandling == "stop" {
				shouldStop = true
			}
			mu.Unlock()
			sink.putOutcome(idx, execResult, err)
		})
	}

	pool.Wait()
}

'''),
  why="results can additionally be streamed to a channel, in item order or completion order (no stream by default): slots are written through a sink")

# ------------------------------------------------------------------------------------------
# 3. per-item timeouts (opt-in)
A("itemtimeout",
  ("flyt.go", '''	batchErrorHandling string // "stop", "continue"
}
''', '''	batchErrorHandling string // "stop", "continue"
	batchItemTimeout   time.Duration
}

// WithBatchItemTimeout bounds the processing of one batch item (all its attempts and waits).
// Zero, the default, means no per-item bound.
func WithBatchItemTimeout(d time.Duration) NodeOption {
	return func(n *BaseNode) {
		n.batchItemTimeout = d
	}
}

// GetBatchItemTimeout returns the per-item timeout of batch processing (0 = none).
func (n *BaseNode) GetBatchItemTimeout() time.Duration {
	n.mu.RLock()
	defer n.mu.RUnlock()
	return n.batchItemTimeout
}

// ErrItemTimeout marks a batch item that exceeded the configured per-item timeout.
var ErrItemTimeout = fmt.Errorf("batch item timed out")
'''),
  ("batch.go", '''func (b *BatchNodeBuilder) WithBatchConcurrency(n int) *BatchNodeBuilder {''', '''func (b *BatchNodeBuilder) WithBatchItemTimeout(d time.Duration) *BatchNodeBuilder {
	WithBatchItemTimeout(d)(b.BaseNode)
	return b
}

func (b *BatchNodeBuilder) WithBatchConcurrency(n int) *BatchNodeBuilder {'''),
  ("batch.go", '''func runExecWithRetries(ctx context.Context, node Node, item Result) (any, error) {
	// Get retry settings''', '''// itemTimeouter is implemented by nodes that bound the processing time of a batch item.
type itemTimeouter interface{ GetBatchItemTimeout() time.Duration }

func runExecWithRetries(parent context.Context, node Node, item Result) (any, error) {
	ctx := parent
	if it, ok := node.(itemTimeouter); ok {
		if d := it.GetBatchItemTimeout(); d > 0 {
			var cancel context.CancelFunc
			ctx, cancel = context.WithTimeout(parent, d)
			defer cancel()
			res, err := runItemAttempts(ctx, node, item)
			if err != nil && ctx.Err() != nil && parent.Err() == nil {
				return nil, fmt.Errorf("%w after %v: %w", ErrItemTimeout, d, err)
			}
			return res, err
		}
	}
	return runItemAttempts(ctx, node, item)
}

func runItemAttempts(ctx context.Context, node Node, item Result) (any, error) {
	// Get retry settings'''),
  why="opt-in per-item timeout (derived context only when configured); the retry loop moved into a helper")

# ------------------------------------------------------------------------------------------
# 4. rate limiting (off by default) by restructuring the dispatch loop
A("ratelimit",
  ("flyt.go", '''	batchErrorHandling string // "stop", "continue"
}
''', '''	batchErrorHandling string // "stop", "continue"
	batchRate          float64 // items started per second, 0 = unlimited
}

// WithBatchRateLimit limits how many batch items are started per second (0 = unlimited, the default).
func WithBatchRateLimit(perSecond float64) NodeOption {
	return func(n *BaseNode) {
		n.batchRate = perSecond
	}
}

// GetBatchRateLimit returns the configured start rate for batch items (0 = unlimited).
func (n *BaseNode) GetBatchRateLimit() float64 {
	n.mu.RLock()
	defer n.mu.RUnlock()
	return n.batchRate
}
'''),
  ("batch.go", '''	// Execute items
	results := make([]Result, len(items))

	if concurrency > 0 {
		runBatchConcurrent(ctx, node, items, results, concurrency, errorHandling)
	} else {
		runBatchSequential(ctx, node, items, results, errorHandling)
	}
''', '''	// Execute items
	results := make([]Result, len(items))
	var lim *startLimiter
	if rl, ok := node.(interface{ GetBatchRateLimit() float64 }); ok {
		lim = newStartLimiter(rl.GetBatchRateLimit())
	}

	if concurrency > 0 {
		runBatchConcurrent(ctx, node, items, results, concurrency, errorHandling, lim)
	} else {
		runBatchSequential(ctx, node, items, results, errorHandling, lim)
	}
'''),
  ("batch.go", (RS, RE), '''// startLimiter spaces out item starts. A nil limiter admits at once.
type startLimiter struct {
	interval time.Duration
	next     time.Time
}

func newStartLimiter(perSecond float64) *startLimiter {
	if perSecond <= 0 {
		return nil
	}
	return &startLimiter{interval: time.Duration(float64(time.Second) / perSecond)}
}

// admit blocks until the next item may start or the context ends (only the dispatcher calls it).
func (l *startLimiter) admit(ctx context.Context) error {
	if l == nil {
		return nil
	}
	now := time.Now()
	if l.next.Before(now) {
		l.next = now
	}
	d := l.next.Sub(now)
	l.next = l.next.Add(l.interval)
	if d <= 0 {
		return nil
	}
	t := time.NewTimer(d)
	defer t.Stop()
	select {
	case <-t.C:
		return nil
	case <-ctx.Done():
		return ctx.Err()
	}
}

func fillRest(results []Result, from int, msg string) {
	for i := from; i < len(results); i++ {
		results[i] = NewErrorResult(fmt.Errorf("%s", msg))
	}
}

func runBatchSequential(ctx context.Context, node Node, items []Result, results []Result, errorHandling string, lim *startLimiter) {
	for i, item := range items {
		if lim.admit(ctx) != nil || ctx.Err() != nil {
			results[i] = NewErrorResult(fmt.Errorf("context cancelled"))
			if errorHandling == "stop" {
				fillRest(results, i+1, "batch stopped due to error")
				return
			}
			continue
		}

		execResult, err := runExecWithRetries(ctx, node, item)
		if err != nil {
			results[i] = NewErrorResult(err)
			if errorHandling == "stop" {
				// Items that were never processed must not look like successful (zero) results
				fillRest(results, i+1, "batch stopped due to error")
				return
			}
		} else if r, ok := execResult.(Result); ok {
			results[i] = r
		} else {
			results[i] = NewResult(execResult)
		}
	}
}

func runBatchConcurrent(ctx context.Context, node Node, items []Result, results []Result, concurrency int, errorHandling string, lim *startLimiter) {
	stopMode := errorHandling == "stop"
	jobs := make(chan int) // handed over one by one: the dispatcher decides when an item may start
	stopCh := make(chan struct{})
	var stopOnce sync.Once
	var wg sync.WaitGroup

	stopped := func() bool {
		select {
		case <-stopCh:
			return true
		default:
			return false
		}
	}

	worker := func() {
		defer wg.Done()
		for idx := range jobs {
			if stopMode && stopped() {
				results[idx] = NewErrorResult(fmt.Errorf("batch stopped due to error"))
				continue
			}
			if ctx.Err() != nil {
				results[idx] = NewErrorResult(fmt.Errorf("context cancelled"))
				continue
			}
			execResult, err := runExecWithRetries(ctx, node, items[idx])
			if err != nil {
				results[idx] = NewErrorResult(err)
				if stopMode {
					stopOnce.Do(func() { close(stopCh) })
				}
			} else if r, ok := execResult.(Result); ok {
				results[idx] = r
			} else {
				results[idx] = NewResult(execResult)
			}
		}
	}

	if concurrency > len(items) {
		concurrency = len(items)
	}
	wg.Add(concurrency)
	for w := 0; w < concurrency; w++ {
		go worker()
	}

dispatch:
	for i := range items {
		if err := lim.admit(ctx); err != nil {
			fillRest(results, i, "context cancelled")
			break dispatch
		}
		select {
		case jobs <- i:
		case <-stopCh:
			fillRest(results, i, "batch stopped due to error")
			break dispatch
		case <-ctx.Done():
			fillRest(results, i, "context cancelled")
			break dispatch
		}
	}
	close(jobs)
	wg.Wait()
}

'''),
  why="start-rate limiting (off by default): the caller is a dispatcher that hands items one by one over an unbuffered channel to min(c, n) workers and stops dispatching (filling the remaining slots) as soon as the batch is stopped or the context ends; no WorkerPool, no queue")

# ------------------------------------------------------------------------------------------
# 5. chunked submission that keeps the concurrency semantics
A("chunked",
  ("flyt.go", '''	batchErrorHandling string // "stop", "continue"
}
''', '''	batchErrorHandling string // "stop", "continue"
	batchChunkSize     int // items per chunk, 0 = default
}

// DefaultBatchChunkSize is the number of items a batch hands to its workers at a time.
const DefaultBatchChunkSize = 4

// WithBatchChunkSize sets how many items are handed to the workers at a time. Chunking bounds the
// bookkeeping that exists at any moment; it never lowers the number of items in flight.
func WithBatchChunkSize(n int) NodeOption {
	return func(node *BaseNode) {
		node.batchChunkSize = n
	}
}

// GetBatchChunkSize returns the chunk size used for batch processing.
func (n *BaseNode) GetBatchChunkSize() int {
	n.mu.RLock()
	defer n.mu.RUnlock()
	if n.batchChunkSize <= 0 {
		return DefaultBatchChunkSize
	}
	return n.batchChunkSize
}
'''),
  ("batch.go", '''	if concurrency > 0 {
		runBatchConcurrent(ctx, node, items, results, concurrency, errorHandling)
	} else {''', '''	if concurrency > 0 {
		chunk := DefaultBatchChunkSize
		if cs, ok := node.(interface{ GetBatchChunkSize() int }); ok {
			chunk = cs.GetBatchChunkSize()
		}
		runBatchConcurrent(ctx, node, items, results, concurrency, errorHandling, chunk)
	} else {'''),
  ("batch.go", (RC, RE), '''// batchChunk is the bookkeeping of one chunk of items: views onto the item and result lists and
// the number of its items that are not settled yet.
type batchChunk struct {
	items   []Result
	results []Result
	open    int
}

func runBatchConcurrent(ctx context.Context, node Node, items []Result, results []Result, concurrency int, errorHandling string, chunkSize int) {
	pool := NewWorkerPool(concurrency)
	defer pool.Close()

	var mu sync.Mutex
	shouldStop := false
	freed := sync.NewCond(&mu)
	outstanding := 0 // submitted items that are not settled yet

	for lo := 0; lo < len(items); lo += chunkSize {
		hi := lo + chunkSize
		if hi > len(items) {
			hi = len(items)
		}
		ch := &batchChunk{items: items[lo:hi], results: results[lo:hi], open: hi - lo}

		// the next chunk is opened as soon as fewer than c+chunk submitted items are unsettled: at
		// least c items are then always available to the c workers while any are left
		mu.Lock()
		for outstanding >= concurrency+chunkSize {
			freed.Wait()
		}
		outstanding += hi - lo
		mu.Unlock()

		for j := range ch.items {
			j := j
			pool.Submit(func() {
				defer func() {
					mu.Lock()
					ch.open--
					outstanding--
					freed.Signal()
					mu.Unlock()
				}()

				mu.Lock()
				stop := shouldStop && errorHandling == "stop"
				mu.Unlock()
				if stop {
					ch.results[j] = NewErrorResult(fmt.Errorf("batch stopped due to error"))
					return
				}
				if ctx.Err() != nil {
					ch.results[j] = NewErrorResult(fmt.Errorf("context cancelled"))
					return
				}

				execResult, err := runExecWithRetries(ctx, node, ch.items[j])

				mu.Lock()
				if err != nil {
					ch.results[j] = NewErrorResult(err)
					if errorHandling == "stop" {
						shouldStop = true
					}
				} else if r, ok := execResult.(Result); ok {
					ch.results[j] = r
				} else {
					ch.results[j] = NewResult(execResult)
				}
				mu.Unlock()
			})
		}
	}

	pool.Wait()
}

'''),
  why="items are handed to the pool chunk by chunk (default 4 per chunk); the next chunk is opened as soon as fewer than c+chunk submitted items are unsettled, which always leaves at least c items available to the c workers (no barrier between chunks, the concurrency semantics are kept)")

# ------------------------------------------------------------------------------------------
# 6. result / item buffers recycled through a sync.Pool (cleared before reuse)
A("slicepool",
  ("batch.go", '''// runBatch handles the execution of batch nodes
func runBatch(''', '''// resultBufs recycles the []Result buffers of batch runs (item lists built from []any or other
// slices, and result lists). Buffers are cleared before they are handed out again.
var resultBufs sync.Pool

func getResultBuf(n int) []Result {
	if v := resultBufs.Get(); v != nil {
		if b := *(v.(*[]Result)); cap(b) >= n {
			b = b[:n]
			clear(b)
			return b
		}
	}
	return make([]Result, n, max(n, 16))
}

func putResultBuf(b []Result) {
	if cap(b) == 0 || cap(b) > 1<<16 {
		return
	}
	b = b[:cap(b)]
	clear(b) // do not keep the user's values alive
	resultBufs.Put(&b)
}

// runBatch handles the execution of batch nodes
func runBatch('''),
  ("batch.go", '''	case []any:
		items = make([]Result, len(v))
		for i, item := range v {
			items[i] = NewResult(item)
		}
	default:
		// Try to convert using ToSlice
		slice := ToSlice(prepResult)
		items = make([]Result, len(slice))
		for i, item := range slice {
			items[i] = NewResult(item)
		}
	}
''', '''	case []any:
		items = getResultBuf(len(v))
		defer putResultBuf(items)
		for i, item := range v {
			items[i] = NewResult(item)
		}
	default:
		// Try to convert using ToSlice
		slice := ToSlice(prepResult)
		items = getResultBuf(len(slice))
		defer putResultBuf(items)
		for i, item := range slice {
			items[i] = NewResult(item)
		}
	}
'''),
  ("batch.go", '''	// Execute items
	results := make([]Result, len(items))
''', '''	// Execute items. The result list is only valid during post (documented on WithPostFunc).
	results := getResultBuf(len(items))
	defer putResultBuf(results)
'''),
  why="the []Result buffers of a batch run (converted items, results) come from a sync.Pool, are cleared before reuse and go back when Run returns, i.e. after post")

# ------------------------------------------------------------------------------------------
# 7. arena-style allocation: one block for items, results and per-item state
A("arena",
  ("batch.go", '''	// Execute items
	results := make([]Result, len(items))
''', '''	// Execute items. One block holds a private copy of the items and the results, so that the
	// workers touch one contiguous region and a prep function that keeps mutating its slice
	// cannot disturb a run in progress.
	n := len(items)
	arena := make([]Result, 2*n)
	copy(arena[:n], items)
	items = arena[:n:n]
	results := arena[n : 2*n : 2*n]
'''),
  why="items are copied into, and results pre-sized inside, one arena block; post receives the two halves (full slice expressions, so appending to one cannot reach the other)")

# ------------------------------------------------------------------------------------------
# 8. per-run batch state (WaitGroup, mutex, flag, result buffer) recycled through a sync.Pool
A("statepool",
  ("batch.go", (RC, RE), '''// batchState is the per-run state of a concurrent batch; recycled to avoid allocations.
type batchState struct {
	wg         sync.WaitGroup
	mu         sync.Mutex
	shouldStop bool
}

var batchStates = sync.Pool{New: func() any { return new(batchState) }}

func runBatchConcurrent(ctx context.Context, node Node, items []Result, results []Result, concurrency int, errorHandling string) {
	st := batchStates.Get().(*batchState)
	st.shouldStop = false
	defer batchStates.Put(st)

	sem := make(chan struct{}, concurrency)
	for i, item := range items {
		idx := i
		itm := item
		sem <- struct{}{}
		st.wg.Add(1)
		go func() {
			defer st.wg.Done()
			defer func() { <-sem }()
			st.mu.Lock()
			stop := st.shouldStop && errorHandling == "stop"
			st.mu.Unlock()
			if stop {
				results[idx] = NewErrorResult(fmt.Errorf("batch stopped due to error"))
				return
			}
			if ctx.Err() != nil {
				results[idx] = NewErrorResult(fmt.Errorf("context cancelled"))
				return
			}
			execResult, err := runExecWithRetries(ctx, node, itm)
			st.mu.Lock()
			defer st.mu.Unlock()
			if err != nil {
				results[idx] = NewErrorResult(err)
				if errorHandling == "stop" {
					st.shouldStop = true
				}
			} else if r, ok := execResult.(Result); ok {
				results[idx] = r
			} else {
				results[idx] = NewResult(execResult)
			}
		}()
	}
	st.wg.Wait()
}

'''),
  why="KNOWN LIMIT VARIANT (DESIGN 7): the per-run state incl. its sync.WaitGroup is recycled through a sync.Pool; a WaitGroup stays associated with the synctest bubble it was first used in")

POOL = ("type WorkerPool struct {", "// ToSlice converts various types")

# ------------------------------------------------------------------------------------------
# 9. WorkerPool with priorities (FIFO by default)
A("prio",
  ("flyt.go", POOL, '''type WorkerPool struct {
	workers  int
	capacity int

	mu       sync.Mutex
	notEmpty *sync.Cond
	notFull  *sync.Cond
	queue    taskHeap
	seq      uint64
	closed   bool

	wg sync.WaitGroup
}

type prioTask struct {
	fn   func()
	prio int
	seq  uint64
}

// taskHeap orders by priority (higher first), then by submission order (FIFO).
type taskHeap []prioTask

func (h taskHeap) less(i, j int) bool {
	if h[i].prio != h[j].prio {
		return h[i].prio > h[j].prio
	}
	return h[i].seq < h[j].seq
}

func (h *taskHeap) push(t prioTask) {
	*h = append(*h, t)
	i := len(*h) - 1
	for i > 0 {
		p := (i - 1) / 2
		if !h.less(i, p) {
			break
		}
		(*h)[i], (*h)[p] = (*h)[p], (*h)[i]
		i = p
	}
}

func (h *taskHeap) pop() prioTask {
	old := *h
	top := old[0]
	n := len(old) - 1
	old[0] = old[n]
	old[n] = prioTask{}
	*h = old[:n]
	i := 0
	for {
		l, r, m := 2*i+1, 2*i+2, i
		if l < n && h.less(l, m) {
			m = l
		}
		if r < n && h.less(r, m) {
			m = r
		}
		if m == i {
			break
		}
		(*h)[i], (*h)[m] = (*h)[m], (*h)[i]
		i = m
	}
	return top
}

// NewWorkerPool creates a new worker pool with the specified number of workers.
// If workers is less than or equal to 0, it defaults to 1.
func NewWorkerPool(workers int) *WorkerPool {
	if workers <= 0 {
		workers = 1
	}
	p := &WorkerPool{workers: workers, capacity: workers * 2}
	p.notEmpty = sync.NewCond(&p.mu)
	p.notFull = sync.NewCond(&p.mu)
	for i := 0; i < workers; i++ {
		go p.worker()
	}
	return p
}

func (p *WorkerPool) worker() {
	for {
		p.mu.Lock()
		for len(p.queue) == 0 && !p.closed {
			p.notEmpty.Wait()
		}
		if len(p.queue) == 0 {
			p.mu.Unlock()
			return
		}
		t := p.queue.pop()
		p.notFull.Signal()
		p.mu.Unlock()
		t.fn()
	}
}

// Submit submits a task with the default priority 0. Tasks of equal priority run in
// submission order. This method blocks while the task buffer is full.
func (p *WorkerPool) Submit(task func()) {
	p.SubmitPriority(0, task)
}

// SubmitPriority submits a task; queued tasks with a higher priority are picked first.
func (p *WorkerPool) SubmitPriority(priority int, task func()) {
	p.wg.Add(1)
	p.mu.Lock()
	for len(p.queue) >= p.capacity && !p.closed {
		p.notFull.Wait()
	}
	p.seq++
	p.queue.push(prioTask{prio: priority, seq: p.seq, fn: func() {
		defer p.wg.Done()
		task()
	}})
	p.notEmpty.Signal()
	p.mu.Unlock()
}

// Wait waits for all submitted tasks to complete.
func (p *WorkerPool) Wait() {
	p.wg.Wait()
}

// Close closes the worker pool. Workers finish what is queued and exit.
func (p *WorkerPool) Close() {
	p.mu.Lock()
	p.closed = true
	p.notEmpty.Broadcast()
	p.notFull.Broadcast()
	p.mu.Unlock()
}

'''),
  why="priority queue (binary heap under a mutex, two condition variables, capacity 2*workers); Submit = priority 0, equal priorities are FIFO by sequence number")

# ------------------------------------------------------------------------------------------
# 10. SubmitContext / TrySubmit alongside Submit; the batch uses SubmitContext
A("submitctx",
  ("flyt.go", '''func (p *WorkerPool) Submit(task func()) {
	p.wg.Add(1)
	p.tasks <- func() {
		defer p.wg.Done()
		task()
	}
}
''', '''func (p *WorkerPool) Submit(task func()) {
	_ = p.SubmitContext(context.Background(), task)
}

// ErrPoolClosed is returned by SubmitContext and TrySubmit after Close.
var ErrPoolClosed = fmt.Errorf("worker pool closed")

// SubmitContext is like Submit but gives up when ctx ends before the task could be queued.
// It returns ctx.Err() in that case (the task will not run) and nil once the task is queued.
func (p *WorkerPool) SubmitContext(ctx context.Context, task func()) error {
	p.wg.Add(1)
	wrapped := func() {
		defer p.wg.Done()
		task()
	}
	// fast path: room in the queue (also prefers queueing over an already-finished context
	// only when the caller did not check it, see below)
	select {
	case <-p.done:
		p.wg.Done()
		return ErrPoolClosed
	default:
	}
	if err := ctx.Err(); err != nil {
		p.wg.Done()
		return err
	}
	select {
	case p.tasks <- wrapped:
		return nil
	case <-ctx.Done():
		p.wg.Done()
		return ctx.Err()
	case <-p.done:
		p.wg.Done()
		return ErrPoolClosed
	}
}

// TrySubmit queues the task if that is possible without blocking.
func (p *WorkerPool) TrySubmit(task func()) bool {
	p.wg.Add(1)
	select {
	case p.tasks <- func() {
		defer p.wg.Done()
		task()
	}:
		return true
	default:
		p.wg.Done()
		return false
	}
}
'''),
  ("batch.go", '''		pool.Submit(func() {
			mu.Lock()
			if shouldStop && errorHandling == "stop" {''', '''		err := pool.SubmitContext(ctx, func() {
			mu.Lock()
			if shouldStop && errorHandling == "stop" {'''),
  ("batch.go", '''				}
			}
			mu.Unlock()
		})
	}

	pool.Wait()''', '''				}
			}
			mu.Unlock()
		})
		if err != nil {
			// the context ended while the queue was full: nothing further is queued
			mu.Lock()
			for j := i; j < len(items); j++ {
				results[j] = NewErrorResult(fmt.Errorf("context cancelled"))
			}
			mu.Unlock()
			break
		}
	}

	pool.Wait()'''),
  why="context-aware SubmitContext (plus TrySubmit, ErrPoolClosed) next to Submit, which is SubmitContext(Background); the batch submits with the run's context and fills the remaining slots when the context ends while it waits for queue space")

# ------------------------------------------------------------------------------------------
# 11. Resize
A("resize",
  ("flyt.go", POOL, '''type WorkerPool struct {
	tasks chan func()
	wg    sync.WaitGroup

	mu     sync.Mutex
	quits  []chan struct{} // one per live worker
	closed bool
}

// NewWorkerPool creates a new worker pool with the specified number of workers.
// If workers is less than or equal to 0, it defaults to 1.
func NewWorkerPool(workers int) *WorkerPool {
	if workers <= 0 {
		workers = 1
	}
	p := &WorkerPool{tasks: make(chan func(), workers*2)}
	p.Resize(workers)
	return p
}

// Workers returns the current number of workers.
func (p *WorkerPool) Workers() int {
	p.mu.Lock()
	defer p.mu.Unlock()
	return len(p.quits)
}

// Resize changes the number of workers (values <= 0 mean 1). Surplus workers finish the task
// they are running and exit; the queue capacity is not changed. Resize after Close is a no-op.
func (p *WorkerPool) Resize(workers int) {
	if workers <= 0 {
		workers = 1
	}
	p.mu.Lock()
	defer p.mu.Unlock()
	if p.closed {
		return
	}
	for len(p.quits) < workers {
		q := make(chan struct{})
		p.quits = append(p.quits, q)
		go p.worker(q)
	}
	for len(p.quits) > workers {
		last := len(p.quits) - 1
		close(p.quits[last])
		p.quits = p.quits[:last]
	}
}

func (p *WorkerPool) worker(quit <-chan struct{}) {
	for {
		select {
		case <-quit:
			return
		default:
		}
		select {
		case task, ok := <-p.tasks:
			if !ok {
				return
			}
			task()
		case <-quit:
			return
		}
	}
}

// Submit submits a task to the pool for execution.
// This method blocks if all workers are busy and the task buffer is full.
func (p *WorkerPool) Submit(task func()) {
	p.wg.Add(1)
	p.tasks <- func() {
		defer p.wg.Done()
		task()
	}
}

// Wait waits for all submitted tasks to complete.
func (p *WorkerPool) Wait() {
	p.wg.Wait()
}

// Close closes the worker pool; its workers exit.
func (p *WorkerPool) Close() {
	p.mu.Lock()
	defer p.mu.Unlock()
	if p.closed {
		return
	}
	p.closed = true
	for _, q := range p.quits {
		close(q)
	}
	p.quits = nil
	close(p.tasks)
}

'''),
  why="Resize/Workers: every worker has its own quit channel, kept in a slice under a mutex; NewWorkerPool is Resize(workers) on an empty pool")

# ------------------------------------------------------------------------------------------
# 12. pool on a weighted semaphore (golang.org/x/sync/semaphore copied in)
A("semaphore",
  ("flyt.go", '''import (
	"context"
	"encoding/json"
	"fmt"
	"reflect"
	"sync"
	"time"
)''', '''import (
	"container/list"
	"context"
	"encoding/json"
	"fmt"
	"reflect"
	"sync"
	"time"
)'''),
  ("flyt.go", POOL, '''type WorkerPool struct {
	workers int
	sem     *weighted // one unit per running task
	queue   *weighted // one unit per task that is queued or running: workers*3 in all, as before (2*workers queued)
	wg      sync.WaitGroup
}

// NewWorkerPool creates a new worker pool with the specified number of workers.
// If workers is less than or equal to 0, it defaults to 1.
func NewWorkerPool(workers int) *WorkerPool {
	if workers <= 0 {
		workers = 1
	}
	return &WorkerPool{workers: workers, sem: newWeighted(int64(workers)), queue: newWeighted(int64(workers) * 3)}
}

// Submit submits a task to the pool for execution.
// This method blocks if all workers are busy and the task buffer is full.
func (p *WorkerPool) Submit(task func()) {
	p.wg.Add(1)
	_ = p.queue.Acquire(context.Background(), 1)
	go func() {
		defer p.wg.Done()
		defer p.queue.Release(1)
		_ = p.sem.Acquire(context.Background(), 1) // FIFO among the queued tasks
		defer p.sem.Release(1)
		task()
	}()
}

// Wait waits for all submitted tasks to complete.
func (p *WorkerPool) Wait() {
	p.wg.Wait()
}

// Close closes the worker pool. There are no resident goroutines to stop.
func (p *WorkerPool) Close() {}

// ---- weighted semaphore, after golang.org/x/sync/semaphore (BSD licence) ----

type waiter struct {
	n     int64
	ready chan<- struct{} // Closed when semaphore acquired.
}

func newWeighted(n int64) *weighted {
	return &weighted{size: n}
}

type weighted struct {
	size    int64
	cur     int64
	mu      sync.Mutex
	waiters list.List
}

func (s *weighted) Acquire(ctx context.Context, n int64) error {
	done := ctx.Done()

	s.mu.Lock()
	select {
	case <-done:
		// ctx becoming done has "happened before" acquiring the semaphore,
		// whether it became done before the call began or while we were
		// waiting for the mutex. We prefer to fail even if we could acquire
		// the mutex without blocking.
		s.mu.Unlock()
		return ctx.Err()
	default:
	}
	if s.size-s.cur >= n && s.waiters.Len() == 0 {
		// Since we hold s.mu and haven't synchronized since checking done, if
		// ctx becomes done before we return here, it becoming done must have
		// "happened concurrently" with this call - it cannot "happen before"
		// we return in this branch. So, we're ok to always acquire here.
		s.cur += n
		s.mu.Unlock()
		return nil
	}

	if n > s.size {
		// Don't make other Acquire calls block on one that's doomed to fail.
		s.mu.Unlock()
		<-done
		return ctx.Err()
	}

	ready := make(chan struct{})
	w := waiter{n: n, ready: ready}
	elem := s.waiters.PushBack(w)
	s.mu.Unlock()

	select {
	case <-done:
		s.mu.Lock()
		select {
		case <-ready:
			// Acquired the semaphore after we were canceled.
			// Pretend we didn't and put the tokens back.
			s.cur -= n
			s.notifyWaiters()
		default:
			isFront := s.waiters.Front() == elem
			s.waiters.Remove(elem)
			// If we're at the front and there're extra tokens left, notify other waiters.
			if isFront && s.size > s.cur {
				s.notifyWaiters()
			}
		}
		s.mu.Unlock()
		return ctx.Err()

	case <-ready:
		// Acquired the semaphore. Check that ctx isn't already done.
		// We check the done channel instead of calling ctx.Err because we
		// already have the channel, and ctx.Err is O(n) with the nested
		// deadlines that are common in cancellations.
		select {
		case <-done:
			s.Release(n)
			return ctx.Err()
		default:
		}
		return nil
	}
}

func (s *weighted) Release(n int64) {
	s.mu.Lock()
	s.cur -= n
	if s.cur < 0 {
		s.mu.Unlock()
		panic("semaphore: released more than held")
	}
	s.notifyWaiters()
	s.mu.Unlock()
}

func (s *weighted) notifyWaiters() {
	for {
		next := s.waiters.Front()
		if next == nil {
			break // No more waiters blocked.
		}

		w := next.Value.(waiter)
		if s.size-s.cur < w.n {
			// Not enough tokens for the next waiter.  We could keep going (to try to
			// find a waiter with a smaller request), but under load that could cause
			// starvation for large requests; instead, we leave all remaining waiters
			// blocked.
			break
		}

		s.cur += w.n
		s.waiters.Remove(next)
		close(w.ready)
	}
}

'''),
  why="pool built on two weighted semaphores (x/sync/semaphore copied in): `queue` bounds queued+running tasks to 3*workers (Submit blocks beyond), `sem` admits `workers` of them at a time in FIFO order; a goroutine per task, nothing resident")

STORE = ("type SharedStore struct {", "// GetString retrieves a string value from the store.")

# ------------------------------------------------------------------------------------------
# 13. TTL support (off unless set)
A("ttl",
  ("flyt.go", STORE, '''type SharedStore struct {
	mu      sync.RWMutex
	data    map[string]storeEntry
	expiring int // entries that carry an expiry time
}

type storeEntry struct {
	value   any
	expires time.Time // zero: never
}

func (e storeEntry) live(now time.Time) bool {
	return e.expires.IsZero() || now.Before(e.expires)
}

// NewSharedStore creates a new thread-safe shared store.
func NewSharedStore() *SharedStore {
	return &SharedStore{
		data: make(map[string]storeEntry),
	}
}

// now is only consulted when some entry can expire at all.
func (s *SharedStore) now() time.Time {
	if s.expiring == 0 {
		return time.Time{}
	}
	return time.Now()
}

// put stores an entry; the caller holds the write lock.
func (s *SharedStore) put(key string, e storeEntry) {
	if old, ok := s.data[key]; ok && !old.expires.IsZero() {
		s.expiring--
	}
	if !e.expires.IsZero() {
		s.expiring++
	}
	s.data[key] = e
}

// Get retrieves a value from the store by key.
// Returns the value and true if the key exists, or nil and false if not found.
func (s *SharedStore) Get(key string) (any, bool) {
	s.mu.RLock()
	defer s.mu.RUnlock()
	e, ok := s.data[key]
	if !ok || !e.live(s.now()) {
		return nil, false
	}
	return e.value, true
}

// Set stores a value in the store with the given key (without expiry).
func (s *SharedStore) Set(key string, value any) {
	s.mu.Lock()
	defer s.mu.Unlock()
	s.put(key, storeEntry{value: value})
}

// SetWithTTL stores a value that disappears after ttl. ttl <= 0 means no expiry.
func (s *SharedStore) SetWithTTL(key string, value any, ttl time.Duration) {
	e := storeEntry{value: value}
	if ttl > 0 {
		e.expires = time.Now().Add(ttl)
	}
	s.mu.Lock()
	defer s.mu.Unlock()
	s.put(key, e)
}

// TTL returns the remaining life time of a key; ok is false if the key is missing or never expires.
func (s *SharedStore) TTL(key string) (time.Duration, bool) {
	s.mu.RLock()
	defer s.mu.RUnlock()
	e, ok := s.data[key]
	if !ok || e.expires.IsZero() {
		return 0, false
	}
	d := time.Until(e.expires)
	return d, d > 0
}

// Purge removes expired entries and returns how many were removed.
func (s *SharedStore) Purge() int {
	s.mu.Lock()
	defer s.mu.Unlock()
	if s.expiring == 0 {
		return 0
	}
	n, now := 0, time.Now()
	for k, e := range s.data {
		if !e.live(now) {
			delete(s.data, k)
			s.expiring--
			n++
		}
	}
	return n
}

// GetAll returns a copy of all data in the store.
func (s *SharedStore) GetAll() map[string]any {
	s.mu.RLock()
	defer s.mu.RUnlock()
	now := s.now()
	out := make(map[string]any, len(s.data))
	for k, e := range s.data {
		if e.live(now) {
			out[k] = e.value
		}
	}
	return out
}

// Merge merges another map into the store (entries without expiry).
// If the provided map is nil, this method does nothing.
func (s *SharedStore) Merge(data map[string]any) {
	if data == nil {
		return
	}
	s.mu.Lock()
	defer s.mu.Unlock()
	for k, v := range data {
		s.put(k, storeEntry{value: v})
	}
}

// Has checks if a key exists in the store.
func (s *SharedStore) Has(key string) bool {
	s.mu.RLock()
	defer s.mu.RUnlock()
	e, ok := s.data[key]
	return ok && e.live(s.now())
}

// Delete removes a key from the store.
func (s *SharedStore) Delete(key string) {
	s.mu.Lock()
	defer s.mu.Unlock()
	if old, ok := s.data[key]; ok && !old.expires.IsZero() {
		s.expiring--
	}
	delete(s.data, key)
}

// Clear removes all keys from the store.
func (s *SharedStore) Clear() {
	s.mu.Lock()
	defer s.mu.Unlock()
	s.data = make(map[string]storeEntry)
	s.expiring = 0
}

// Keys returns all keys in the store.
func (s *SharedStore) Keys() []string {
	s.mu.RLock()
	defer s.mu.RUnlock()
	now := s.now()
	keys := make([]string, 0, len(s.data))
	for k, e := range s.data {
		if e.live(now) {
			keys = append(keys, k)
		}
	}
	return keys
}

// Len returns the number of items in the store.
func (s *SharedStore) Len() int {
	s.mu.RLock()
	defer s.mu.RUnlock()
	if s.expiring == 0 {
		return len(s.data)
	}
	n, now := 0, time.Now()
	for _, e := range s.data {
		if e.live(now) {
			n++
		}
	}
	return n
}

'''),
  why="entries carry an optional expiry (SetWithTTL, TTL, Purge); nothing expires unless a TTL was set, and the clock is only read while some entry can expire")

# ------------------------------------------------------------------------------------------
# 14. namespaces: prefix views sharing map and lock
A("namespace",
  ("flyt.go", '''import (
	"context"
	"encoding/json"
	"fmt"
	"reflect"
	"sync"
	"time"
)''', '''import (
	"context"
	"encoding/json"
	"fmt"
	"reflect"
	"strings"
	"sync"
	"time"
)'''),
  ("flyt.go", STORE, '''type SharedStore struct {
	core   *storeCore
	prefix string // "" for the root view
}

// storeCore is what all views of one store share.
type storeCore struct {
	mu   sync.RWMutex
	data map[string]any
}

// NewSharedStore creates a new thread-safe shared store.
func NewSharedStore() *SharedStore {
	return &SharedStore{core: &storeCore{data: make(map[string]any)}}
}

// Namespace returns a view of the store in which every key is prefixed with name + "/".
// Views share the data and the lock of the store they were taken from; the root view sees
// every key under its full name.
func (s *SharedStore) Namespace(name string) *SharedStore {
	return &SharedStore{core: s.core, prefix: s.prefix + name + "/"}
}

func (s *SharedStore) mine(full string) (string, bool) {
	if s.prefix == "" {
		return full, true
	}
	return strings.CutPrefix(full, s.prefix)
}

// Get retrieves a value from the store by key.
func (s *SharedStore) Get(key string) (any, bool) {
	c := s.core
	c.mu.RLock()
	defer c.mu.RUnlock()
	val, ok := c.data[s.prefix+key]
	return val, ok
}

// Set stores a value in the store with the given key.
func (s *SharedStore) Set(key string, value any) {
	c := s.core
	c.mu.Lock()
	defer c.mu.Unlock()
	c.data[s.prefix+key] = value
}

// GetAll returns a copy of all data visible through this view.
func (s *SharedStore) GetAll() map[string]any {
	c := s.core
	c.mu.RLock()
	defer c.mu.RUnlock()
	out := make(map[string]any, len(c.data))
	for full, v := range c.data {
		if k, ok := s.mine(full); ok {
			out[k] = v
		}
	}
	return out
}

// Merge merges another map into the store.
// If the provided map is nil, this method does nothing.
func (s *SharedStore) Merge(data map[string]any) {
	if data == nil {
		return
	}
	c := s.core
	c.mu.Lock()
	defer c.mu.Unlock()
	for k, v := range data {
		c.data[s.prefix+k] = v
	}
}

// Has checks if a key exists in the store.
func (s *SharedStore) Has(key string) bool {
	c := s.core
	c.mu.RLock()
	defer c.mu.RUnlock()
	_, ok := c.data[s.prefix+key]
	return ok
}

// Delete removes a key from the store.
func (s *SharedStore) Delete(key string) {
	c := s.core
	c.mu.Lock()
	defer c.mu.Unlock()
	delete(c.data, s.prefix+key)
}

// Clear removes all keys visible through this view.
func (s *SharedStore) Clear() {
	c := s.core
	c.mu.Lock()
	defer c.mu.Unlock()
	if s.prefix == "" {
		c.data = make(map[string]any)
		return
	}
	for full := range c.data {
		if strings.HasPrefix(full, s.prefix) {
			delete(c.data, full)
		}
	}
}

// Keys returns all keys visible through this view.
func (s *SharedStore) Keys() []string {
	c := s.core
	c.mu.RLock()
	defer c.mu.RUnlock()
	keys := make([]string, 0, len(c.data))
	for full := range c.data {
		if k, ok := s.mine(full); ok {
			keys = append(keys, k)
		}
	}
	return keys
}

// Len returns the number of items visible through this view.
func (s *SharedStore) Len() int {
	c := s.core
	c.mu.RLock()
	defer c.mu.RUnlock()
	if s.prefix == "" {
		return len(c.data)
	}
	n := 0
	for full := range c.data {
		if strings.HasPrefix(full, s.prefix) {
			n++
		}
	}
	return n
}

'''),
  why="Namespace(name) returns a prefix view sharing the map and the lock of the store; NewSharedStore returns the root view (empty prefix)")

# ------------------------------------------------------------------------------------------
# 15. Watch / subscribe, CompareAndSwap, Update, GetOrSet
A("watch",
  ("flyt.go", '''import (
	"context"
	"encoding/json"
	"fmt"
	"reflect"
	"sync"
	"time"
)''', '''import (
	"context"
	"encoding/json"
	"fmt"
	"reflect"
	"sync"
	"sync/atomic"
	"time"
)'''),
  ("flyt.go", STORE, '''type SharedStore struct {
	mu   sync.RWMutex
	data map[string]any

	wmu      sync.Mutex
	watchers map[string][]*storeWatcher // "" = every key
	nwatch   atomic.Int32
}

// StoreEvent describes one change of a key.
type StoreEvent struct {
	Key      string
	Old, New any
	Existed  bool // the key existed before
	Deleted  bool // the key does not exist any more
}

type storeWatcher struct {
	fn func(StoreEvent)
}

// NewSharedStore creates a new thread-safe shared store.
func NewSharedStore() *SharedStore {
	return &SharedStore{
		data: make(map[string]any),
	}
}

// Watch registers fn for changes of key ("" = all keys) and returns a function that removes the
// registration. Callbacks run on the goroutine that made the change, after the store's lock has
// been released.
func (s *SharedStore) Watch(key string, fn func(StoreEvent)) (cancel func()) {
	w := &storeWatcher{fn: fn}
	s.wmu.Lock()
	if s.watchers == nil {
		s.watchers = make(map[string][]*storeWatcher)
	}
	s.watchers[key] = append(s.watchers[key], w)
	s.wmu.Unlock()
	s.nwatch.Add(1)
	return func() {
		s.wmu.Lock()
		defer s.wmu.Unlock()
		ws := s.watchers[key]
		for i, x := range ws {
			if x == w {
				s.watchers[key] = append(ws[:i:i], ws[i+1:]...)
				s.nwatch.Add(-1)
				return
			}
		}
	}
}

func (s *SharedStore) watched() bool { return s.nwatch.Load() > 0 }

func (s *SharedStore) notify(evs []StoreEvent) {
	for _, ev := range evs {
		s.wmu.Lock()
		ws := append(append([]*storeWatcher(nil), s.watchers[ev.Key]...), s.watchers[""]...)
		s.wmu.Unlock()
		for _, w := range ws {
			w.fn(ev)
		}
	}
}

// Get retrieves a value from the store by key.
func (s *SharedStore) Get(key string) (any, bool) {
	s.mu.RLock()
	defer s.mu.RUnlock()
	val, ok := s.data[key]
	return val, ok
}

// Set stores a value in the store with the given key.
func (s *SharedStore) Set(key string, value any) {
	s.mu.Lock()
	old, existed := s.data[key]
	s.data[key] = value
	s.mu.Unlock()
	if s.watched() {
		s.notify([]StoreEvent{{Key: key, Old: old, New: value, Existed: existed}})
	}
}

// GetOrSet returns the value of key if present; otherwise it stores value and returns it.
func (s *SharedStore) GetOrSet(key string, value any) (actual any, loaded bool) {
	s.mu.Lock()
	if cur, ok := s.data[key]; ok {
		s.mu.Unlock()
		return cur, true
	}
	s.data[key] = value
	s.mu.Unlock()
	if s.watched() {
		s.notify([]StoreEvent{{Key: key, New: value}})
	}
	return value, false
}

// CompareAndSwap stores new under key if the current value deep-equals old (a missing key
// matches old == nil only if it is really missing) and reports whether it did.
func (s *SharedStore) CompareAndSwap(key string, old, new any) bool {
	s.mu.Lock()
	cur, existed := s.data[key]
	if (!existed && old != nil) || !reflect.DeepEqual(cur, old) {
		s.mu.Unlock()
		return false
	}
	s.data[key] = new
	s.mu.Unlock()
	if s.watched() {
		s.notify([]StoreEvent{{Key: key, Old: cur, New: new, Existed: existed}})
	}
	return true
}

// Update replaces the value of key by fn(current, present) atomically. fn must not use the store.
func (s *SharedStore) Update(key string, fn func(current any, present bool) any) any {
	s.mu.Lock()
	cur, existed := s.data[key]
	next := fn(cur, existed)
	s.data[key] = next
	s.mu.Unlock()
	if s.watched() {
		s.notify([]StoreEvent{{Key: key, Old: cur, New: next, Existed: existed}})
	}
	return next
}

// GetAll returns a copy of all data in the store.
func (s *SharedStore) GetAll() map[string]any {
	s.mu.RLock()
	defer s.mu.RUnlock()
	copy := make(map[string]any, len(s.data))
	for k, v := range s.data {
		copy[k] = v
	}
	return copy
}

// Merge merges another map into the store.
// If the provided map is nil, this method does nothing.
func (s *SharedStore) Merge(data map[string]any) {
	if data == nil {
		return
	}
	var evs []StoreEvent
	watched := s.watched()
	s.mu.Lock()
	for k, v := range data {
		if watched {
			old, existed := s.data[k]
			evs = append(evs, StoreEvent{Key: k, Old: old, New: v, Existed: existed})
		}
		s.data[k] = v
	}
	s.mu.Unlock()
	if watched {
		s.notify(evs)
	}
}

// Has checks if a key exists in the store.
func (s *SharedStore) Has(key string) bool {
	s.mu.RLock()
	defer s.mu.RUnlock()
	_, ok := s.data[key]
	return ok
}

// Delete removes a key from the store.
func (s *SharedStore) Delete(key string) {
	s.mu.Lock()
	old, existed := s.data[key]
	delete(s.data, key)
	s.mu.Unlock()
	if existed && s.watched() {
		s.notify([]StoreEvent{{Key: key, Old: old, Existed: true, Deleted: true}})
	}
}

// Clear removes all keys from the store.
func (s *SharedStore) Clear() {
	s.mu.Lock()
	gone := s.data
	s.data = make(map[string]any)
	s.mu.Unlock()
	if s.watched() {
		evs := make([]StoreEvent, 0, len(gone))
		for k, v := range gone {
			evs = append(evs, StoreEvent{Key: k, Old: v, Existed: true, Deleted: true})
		}
		s.notify(evs)
	}
}

// Keys returns all keys in the store.
func (s *SharedStore) Keys() []string {
	s.mu.RLock()
	defer s.mu.RUnlock()
	keys := make([]string, 0, len(s.data))
	for k := range s.data {
		keys = append(keys, k)
	}
	return keys
}

// Len returns the number of items in the store.
func (s *SharedStore) Len() int {
	s.mu.RLock()
	defer s.mu.RUnlock()
	return len(s.data)
}

'''),
  why="Watch (no subscribers by default; change events are delivered after the lock is released), CompareAndSwap, Update, GetOrSet; writers capture the previous value while they hold the lock")

# ------------------------------------------------------------------------------------------
# 16. snapshots via a version counter (multi-version entries)
A("snapver",
  ("flyt.go", STORE, '''type SharedStore struct {
	mu      sync.RWMutex
	version uint64            // number of the last committed write
	data    map[string]*chain // per key: its versions, oldest first
	live    int               // keys whose newest version is a value
	open    map[uint64]int    // versions pinned by open snapshots (reference counts)
}

type chain struct {
	vers []versioned
}

type versioned struct {
	ver  uint64
	val  any
	dead bool // tombstone: the key was deleted (or cleared) at ver
}

func (c *chain) newest() (versioned, bool) {
	if c == nil || len(c.vers) == 0 {
		return versioned{}, false
	}
	v := c.vers[len(c.vers)-1]
	return v, !v.dead
}

// at returns the value the key had at version ver.
func (c *chain) at(ver uint64) (any, bool) {
	for i := len(c.vers) - 1; i >= 0; i-- {
		if c.vers[i].ver <= ver {
			return c.vers[i].val, !c.vers[i].dead
		}
	}
	return nil, false
}

// NewSharedStore creates a new thread-safe shared store.
func NewSharedStore() *SharedStore {
	return &SharedStore{
		data: make(map[string]*chain),
		open: make(map[uint64]int),
	}
}

// oldestPinned returns the oldest version an open snapshot still reads (ok=false: none open).
func (s *SharedStore) oldestPinned() (uint64, bool) {
	var min uint64
	found := false
	for v := range s.open {
		if !found || v < min {
			min, found = v, true
		}
	}
	return min, found
}

// write appends a version to the key's chain and drops what no reader can see any more.
// The caller holds the write lock and has already advanced s.version.
func (s *SharedStore) write(key string, val any, dead bool) {
	c := s.data[key]
	if _, wasLive := c.newest(); wasLive {
		s.live--
	}
	if c == nil {
		if dead {
			return
		}
		c = &chain{}
		s.data[key] = c
	}
	c.vers = append(c.vers, versioned{ver: s.version, val: val, dead: dead})
	if !dead {
		s.live++
	}
	pinned, any := s.oldestPinned()
	if !any {
		// nobody reads the past: keep the newest version only
		if dead {
			delete(s.data, key)
			return
		}
		c.vers[0] = c.vers[len(c.vers)-1]
		clear(c.vers[1:])
		c.vers = c.vers[:1]
		return
	}
	// keep the newest version <= pinned and everything after it
	keep := 0
	for i, v := range c.vers {
		if v.ver <= pinned {
			keep = i
		}
	}
	if keep > 0 {
		n := copy(c.vers, c.vers[keep:])
		clear(c.vers[n:])
		c.vers = c.vers[:n]
	}
}

// Version returns the number of writes committed so far.
func (s *SharedStore) Version() uint64 {
	s.mu.RLock()
	defer s.mu.RUnlock()
	return s.version
}

// StoreSnapshot is a read-only view of the store as of the moment Snapshot was called.
// Taking it costs O(1); Release it when done so that old versions can be dropped.
type StoreSnapshot struct {
	s    *SharedStore
	ver  uint64
	once sync.Once
}

// Snapshot pins the current version of the store.
func (s *SharedStore) Snapshot() *StoreSnapshot {
	s.mu.Lock()
	defer s.mu.Unlock()
	s.open[s.version]++
	return &StoreSnapshot{s: s, ver: s.version}
}

// Get returns the value key had when the snapshot was taken.
func (sn *StoreSnapshot) Get(key string) (any, bool) {
	sn.s.mu.RLock()
	defer sn.s.mu.RUnlock()
	c := sn.s.data[key]
	if c == nil {
		return nil, false
	}
	v, ok := c.at(sn.ver)
	if !ok {
		return nil, false
	}
	return v, true
}

// Release unpins the snapshot's version.
func (sn *StoreSnapshot) Release() {
	sn.once.Do(func() {
		s := sn.s
		s.mu.Lock()
		defer s.mu.Unlock()
		if s.open[sn.ver]--; s.open[sn.ver] <= 0 {
			delete(s.open, sn.ver)
		}
	})
}

// Get retrieves a value from the store by key.
func (s *SharedStore) Get(key string) (any, bool) {
	s.mu.RLock()
	defer s.mu.RUnlock()
	v, ok := s.data[key].newest()
	if !ok {
		return nil, false
	}
	return v.val, true
}

// Set stores a value in the store with the given key.
func (s *SharedStore) Set(key string, value any) {
	s.mu.Lock()
	defer s.mu.Unlock()
	s.version++
	s.write(key, value, false)
}

// GetAll returns a copy of all data in the store.
func (s *SharedStore) GetAll() map[string]any {
	s.mu.RLock()
	defer s.mu.RUnlock()
	out := make(map[string]any, s.live)
	for k, c := range s.data {
		if v, ok := c.newest(); ok {
			out[k] = v.val
		}
	}
	return out
}

// Merge merges another map into the store (one version for the whole merge).
// If the provided map is nil, this method does nothing.
func (s *SharedStore) Merge(data map[string]any) {
	if data == nil {
		return
	}
	s.mu.Lock()
	defer s.mu.Unlock()
	s.version++
	for k, v := range data {
		s.write(k, v, false)
	}
}

// Has checks if a key exists in the store.
func (s *SharedStore) Has(key string) bool {
	s.mu.RLock()
	defer s.mu.RUnlock()
	_, ok := s.data[key].newest()
	return ok
}

// Delete removes a key from the store.
func (s *SharedStore) Delete(key string) {
	s.mu.Lock()
	defer s.mu.Unlock()
	if _, ok := s.data[key].newest(); !ok {
		return
	}
	s.version++
	s.write(key, nil, true)
}

// Clear removes all keys from the store.
func (s *SharedStore) Clear() {
	s.mu.Lock()
	defer s.mu.Unlock()
	s.version++
	if len(s.open) == 0 {
		s.data = make(map[string]*chain)
		s.live = 0
		return
	}
	for k, c := range s.data {
		if _, ok := c.newest(); ok {
			s.write(k, nil, true)
		}
	}
}

// Keys returns all keys in the store.
func (s *SharedStore) Keys() []string {
	s.mu.RLock()
	defer s.mu.RUnlock()
	keys := make([]string, 0, s.live)
	for k, c := range s.data {
		if _, ok := c.newest(); ok {
			keys = append(keys, k)
		}
	}
	return keys
}

// Len returns the number of items in the store.
func (s *SharedStore) Len() int {
	s.mu.RLock()
	defer s.mu.RUnlock()
	return s.live
}

'''),
  why="O(1) Snapshot()/Release() through a version counter: every key keeps a chain of versions (tombstones for deletions), one version number per Set/Merge/Delete/Clear, Len from a live-key counter; versions no open snapshot can read are dropped on the next write")

# ------------------------------------------------------------------------------------------
# 17. generic typed Get layered on Get; existing getters re-expressed through it; GetDuration/GetTime
A("typedget",
  ("flyt.go", '''func (s *SharedStore) GetString(key string) string {
	val, ok := s.Get(key)
	if !ok {
		return ""
	}
	str, _ := val.(string)
	return str
}''', '''func (s *SharedStore) GetString(key string) string {
	v, _ := GetAs[string](s, key)
	return v
}

// GetAs retrieves the value stored under key as a T. ok is false if the key is missing or the
// value is not a T (no conversion is attempted).
func GetAs[T any](s *SharedStore, key string) (T, bool) {
	var zero T
	val, ok := s.Get(key)
	if !ok {
		return zero, false
	}
	t, ok := val.(T)
	if !ok {
		return zero, false
	}
	return t, true
}

// GetOr is GetAs with a default.
func GetOr[T any](s *SharedStore, key string, defaultVal T) T {
	if v, ok := GetAs[T](s, key); ok {
		return v
	}
	return defaultVal
}

// GetDuration retrieves a time.Duration: a Duration value, a string in time.ParseDuration syntax,
// or an int / int64 count of nanoseconds. Returns 0 otherwise.
func (s *SharedStore) GetDuration(key string) time.Duration {
	return s.GetDurationOr(key, 0)
}

// GetDurationOr is GetDuration with a default.
func (s *SharedStore) GetDurationOr(key string, defaultVal time.Duration) time.Duration {
	val, ok := s.Get(key)
	if !ok {
		return defaultVal
	}
	switch v := val.(type) {
	case time.Duration:
		return v
	case string:
		if d, err := time.ParseDuration(v); err == nil {
			return d
		}
	case int:
		return time.Duration(v)
	case int64:
		return time.Duration(v)
	}
	return defaultVal
}

// GetTime retrieves a time.Time: a Time value, an RFC 3339 string, or an int64 of Unix seconds.
func (s *SharedStore) GetTime(key string) (time.Time, bool) {
	val, ok := s.Get(key)
	if !ok {
		return time.Time{}, false
	}
	switch v := val.(type) {
	case time.Time:
		return v, true
	case string:
		if t, err := time.Parse(time.RFC3339Nano, v); err == nil {
			return t, true
		}
	case int64:
		return time.Unix(v, 0), true
	}
	return time.Time{}, false
}'''),
  ("flyt.go", '''func (s *SharedStore) GetStringOr(key string, defaultVal string) string {
	val, ok := s.Get(key)
	if !ok {
		return defaultVal
	}
	str, ok := val.(string)
	if !ok {
		return defaultVal
	}
	return str
}''', '''func (s *SharedStore) GetStringOr(key string, defaultVal string) string {
	return GetOr(s, key, defaultVal)
}'''),
  ("flyt.go", '''func (s *SharedStore) GetBoolOr(key string, defaultVal bool) bool {
	val, ok := s.Get(key)
	if !ok {
		return defaultVal
	}
	b, ok := val.(bool)
	if !ok {
		return defaultVal
	}
	return b
}''', '''func (s *SharedStore) GetBoolOr(key string, defaultVal bool) bool {
	return GetOr(s, key, defaultVal)
}'''),
  ("flyt.go", '''func (s *SharedStore) GetMapOr(key string, defaultVal map[string]any) map[string]any {
	val, ok := s.Get(key)
	if !ok {
		return defaultVal
	}
	m, ok := val.(map[string]any)
	if !ok {
		return defaultVal
	}
	return m
}''', '''func (s *SharedStore) GetMapOr(key string, defaultVal map[string]any) map[string]any {
	return GetOr(s, key, defaultVal)
}'''),
  ("result.go", '''// IsNil checks if the Result value is nil.''', '''// AsDuration retrieves the Result as a time.Duration (a Duration value or a string in
// time.ParseDuration syntax).
func (r Result) AsDuration() (time.Duration, bool) {
	switch v := r.value.(type) {
	case time.Duration:
		return v, true
	case string:
		if d, err := time.ParseDuration(v); err == nil {
			return d, true
		}
	}
	return 0, false
}

// AsTime retrieves the Result as a time.Time (a Time value or an RFC 3339 string).
func (r Result) AsTime() (time.Time, bool) {
	switch v := r.value.(type) {
	case time.Time:
		return v, true
	case string:
		if t, err := time.Parse(time.RFC3339Nano, v); err == nil {
			return t, true
		}
	}
	return time.Time{}, false
}

// IsNil checks if the Result value is nil.'''),
  ("result.go", '''import (
	"encoding/json"
	"fmt"
	"reflect"
)''', '''import (
	"encoding/json"
	"fmt"
	"reflect"
	"time"
)'''),
  why="package-level generic GetAs[T]/GetOr[T] layered on Get; the string, bool and map getters are re-expressed through them; new GetDuration/GetTime (and Result.AsDuration/AsTime) families next to the existing ones")

STORE_BIND_TAIL = '''	// Otherwise use JSON as intermediate format
	jsonBytes, err := json.Marshal(val)
	if err != nil {
		return fmt.Errorf("failed to marshal value: %w", err)
	}

	if err := json.Unmarshal(jsonBytes, dest); err != nil {
		return fmt.Errorf("failed to unmarshal to destination: %w", err)
	}

	return nil
}'''
RESULT_BIND_TAIL = '''	// Otherwise use JSON as intermediate format
	jsonBytes, err := json.Marshal(r.value)
	if err != nil {
		return fmt.Errorf("failed to marshal Result: %w", err)
	}

	if err := json.Unmarshal(jsonBytes, dest); err != nil {
		return fmt.Errorf("failed to unmarshal to destination: %w", err)
	}

	return nil
}'''

# ------------------------------------------------------------------------------------------
# 18. Bind with a decode-options struct (defaults as today)
A("bindopts",
  ("flyt.go", '''func (s *SharedStore) Bind(key string, dest any) error {
	val, ok := s.Get(key)
	if !ok {
		return fmt.Errorf("key %q not found in shared store", key)
	}
''', '''func (s *SharedStore) Bind(key string, dest any) error {
	return s.BindWith(key, dest, BindOptions{})
}

// BindWith is Bind with decoding options.
func (s *SharedStore) BindWith(key string, dest any, opts BindOptions) error {
	val, ok := s.Get(key)
	if !ok {
		return fmt.Errorf("key %q not found in shared store", key)
	}
	return bindValue(val, dest, opts)
}

// BindOptions tune the JSON decoding step of Bind. The zero value is what Bind does.
type BindOptions struct {
	// DisallowUnknownFields makes binding fail when the value has a field the destination lacks.
	DisallowUnknownFields bool
	// UseNumber decodes numbers into interface{} destinations as json.Number instead of float64.
	UseNumber bool
	// NoFastPath always goes through JSON, also when the value already has the destination's type
	// (yields a deep copy).
	NoFastPath bool
}

// bindValue is shared by SharedStore.Bind and Result.Bind.
func bindValue(val any, dest any, opts BindOptions) error {
'''),
  ("flyt.go", '''	if valType == destType {
		rv.Elem().Set(reflect.ValueOf(val))
		return nil
	}

''' + STORE_BIND_TAIL, '''	if valType == destType && !opts.NoFastPath {
		rv.Elem().Set(reflect.ValueOf(val))
		return nil
	}

	// Otherwise use JSON as intermediate format
	jsonBytes, err := json.Marshal(val)
	if err != nil {
		return fmt.Errorf("failed to marshal value: %w", err)
	}

	if !opts.DisallowUnknownFields && !opts.UseNumber {
		if err := json.Unmarshal(jsonBytes, dest); err != nil {
			return fmt.Errorf("failed to unmarshal to destination: %w", err)
		}
		return nil
	}

	dec := json.NewDecoder(bytes.NewReader(jsonBytes))
	if opts.DisallowUnknownFields {
		dec.DisallowUnknownFields()
	}
	if opts.UseNumber {
		dec.UseNumber()
	}
	if err := dec.Decode(dest); err != nil {
		return fmt.Errorf("failed to unmarshal to destination: %w", err)
	}
	return nil
}'''),
  ("flyt.go", '''import (
	"context"
	"encoding/json"''', '''import (
	"bytes"
	"context"
	"encoding/json"'''),
  ("result.go", '''	if r.value == nil {
		return fmt.Errorf("cannot bind nil Result value")
	}

	// Check if dest is a pointer
	rv := reflect.ValueOf(dest)
	if rv.Kind() != reflect.Ptr || rv.IsNil() {
		return fmt.Errorf("destination must be a non-nil pointer")
	}

	// If Result value is already the correct type, assign directly
	valType := reflect.TypeOf(r.value)
	destType := rv.Type().Elem()
	if valType == destType {
		rv.Elem().Set(reflect.ValueOf(r.value))
		return nil
	}

''' + RESULT_BIND_TAIL, '''	return r.BindWith(dest, BindOptions{})
}

// BindWith is Bind with decoding options.
func (r Result) BindWith(dest any, opts BindOptions) error {
	if r.value == nil {
		return fmt.Errorf("cannot bind nil Result value")
	}
	return bindValue(r.value, dest, opts)
}

var _ = json.Marshal
var _ = reflect.TypeOf'''),
  why="BindWith(..., BindOptions{DisallowUnknownFields, UseNumber, NoFastPath}) on store and Result; Bind is BindWith with the zero options, both share bindValue (zero options: json.Unmarshal exactly as before)")

# ------------------------------------------------------------------------------------------
# 19. json.Unmarshaler / encoding.TextUnmarshaler fast path
A("unmarshaler",
  ("flyt.go", STORE_BIND_TAIL, '''	// Otherwise use JSON as intermediate format
	return bindViaJSON(val, dest, "value")
}

// bindViaJSON encodes val and decodes it into dest (a non-nil pointer).
func bindViaJSON(val any, dest any, what string) error {
	// A string bound into a destination that unmarshals itself from text (and not from JSON)
	// does not need the JSON detour: encoding/json would quote the string and hand the unquoted
	// text to UnmarshalText. Strings that are not valid UTF-8 take the long way (encoding/json
	// replaces the invalid bytes).
	if s, ok := val.(string); ok && utf8.ValidString(s) {
		if _, isJSON := dest.(json.Unmarshaler); !isJSON {
			if tu, ok := dest.(encoding.TextUnmarshaler); ok {
				if err := tu.UnmarshalText([]byte(s)); err != nil {
					return fmt.Errorf("failed to unmarshal to destination: %w", err)
				}
				return nil
			}
		}
	}

	jsonBytes, err := json.Marshal(val)
	if err != nil {
		return fmt.Errorf("failed to marshal %s: %w", what, err)
	}

	// A destination that decodes itself gets the document directly; json.Unmarshal would only
	// re-validate the bytes json.Marshal has just produced and then make the same call.
	if u, ok := dest.(json.Unmarshaler); ok {
		if err := u.UnmarshalJSON(jsonBytes); err != nil {
			return fmt.Errorf("failed to unmarshal to destination: %w", err)
		}
		return nil
	}

	if err := json.Unmarshal(jsonBytes, dest); err != nil {
		return fmt.Errorf("failed to unmarshal to destination: %w", err)
	}

	return nil
}'''),
  ("flyt.go", '''import (
	"context"
	"encoding/json"
	"fmt"
	"reflect"
	"sync"
	"time"
)''', '''import (
	"context"
	"encoding"
	"encoding/json"
	"fmt"
	"reflect"
	"sync"
	"time"
	"unicode/utf8"
)'''),
  ("result.go", RESULT_BIND_TAIL, '''	// Otherwise use JSON as intermediate format
	return bindViaJSON(r.value, dest, "Result")
}

var _ = json.Marshal'''),
  why="destinations implementing json.Unmarshaler are handed the encoded document directly, strings go straight to an encoding.TextUnmarshaler destination; everything else is json.Marshal + json.Unmarshal as before (shared helper)")

# ------------------------------------------------------------------------------------------
# 20. struct-tag caching: direct map[string]any -> struct assignment for trivially typed fields
A("tagcache",
  ("flyt.go", STORE_BIND_TAIL, '''	if bindMapToStruct(val, rv.Elem()) {
		return nil
	}

''' + STORE_BIND_TAIL + '''

// ---- cached struct plans for the map[string]any -> struct case of Bind ----

type structPlan struct {
	usable bool           // false: always take the JSON path for this type
	exact  map[string]int // JSON name -> field index
	names  []string       // JSON names, for the case-insensitive match
	index  []int
}

var structPlans sync.Map // reflect.Type -> *structPlan

func planFor(t reflect.Type) *structPlan {
	if p, ok := structPlans.Load(t); ok {
		return p.(*structPlan)
	}
	p := buildPlan(t)
	structPlans.Store(t, p)
	return p
}

func plainName(s string) bool {
	for i := 0; i < len(s); i++ {
		c := s[i]
		if !(c == '_' || c >= '0' && c <= '9' || c >= 'a' && c <= 'z' || c >= 'A' && c <= 'Z') {
			return false
		}
	}
	return s != ""
}

func buildPlan(t reflect.Type) *structPlan {
	p := &structPlan{exact: map[string]int{}}
	for i := 0; i < t.NumField(); i++ {
		f := t.Field(i)
		if f.Anonymous {
			return p // embedded fields: leave the promotion rules to encoding/json
		}
		if !f.IsExported() {
			continue
		}
		name := f.Name
		if tag, ok := f.Tag.Lookup("json"); ok {
			if tag == "-" {
				continue
			}
			tn, opts, _ := strings.Cut(tag, ",")
			if opts != "" && opts != "omitempty" {
				return p
			}
			if tn != "" {
				if !plainName(tn) {
					return p
				}
				name = tn
			}
		}
		if !plainName(name) {
			return p
		}
		for _, other := range p.names {
			if strings.EqualFold(other, name) {
				return p // ambiguous under case folding
			}
		}
		p.exact[name] = len(p.names)
		p.names = append(p.names, name)
		p.index = append(p.index, i)
	}
	p.usable = true
	return p
}

func (p *structPlan) field(key string) (int, bool) {
	if i, ok := p.exact[key]; ok {
		return p.index[i], true
	}
	for i, n := range p.names {
		if strings.EqualFold(n, key) {
			return p.index[i], true
		}
	}
	return 0, false
}

var (
	typString  = reflect.TypeOf("")
	typBool    = reflect.TypeOf(false)
	typInt     = reflect.TypeOf(int(0))
	typInt64   = reflect.TypeOf(int64(0))
	typFloat64 = reflect.TypeOf(float64(0))
)

// bindMapToStruct assigns a map[string]any to the struct dest directly when that is provably what
// the JSON round trip would do: every value is nil, a valid-UTF-8 string, a bool, an int/int64 or a
// finite float64, and every value that meets a field has exactly the field's (builtin) type.
// It reports false - having changed nothing - in every other case.
func bindMapToStruct(val any, dest reflect.Value) bool {
	m, ok := val.(map[string]any)
	if !ok || m == nil || dest.Kind() != reflect.Struct {
		return false
	}
	p := planFor(dest.Type())
	if !p.usable {
		return false
	}
	keys := make([]string, 0, len(m))
	for k, v := range m {
		if !utf8.ValidString(k) {
			return false
		}
		fi, hit := p.field(k)
		var ft reflect.Type
		if hit {
			ft = dest.Type().Field(fi).Type
		}
		switch x := v.(type) {
		case nil:
			if hit && ft != typString && ft != typBool && ft != typInt && ft != typInt64 && ft != typFloat64 {
				return false // null resets pointers, maps, slices, interfaces
			}
		case string:
			if !utf8.ValidString(x) || (hit && ft != typString) {
				return false
			}
		case bool:
			if hit && ft != typBool {
				return false
			}
		case int:
			if hit && ft != typInt && ft != typInt64 {
				return false
			}
		case int64:
			if hit && ft != typInt && ft != typInt64 {
				return false
			}
		case float64:
			if math.IsNaN(x) || math.IsInf(x, 0) || (hit && ft != typFloat64) {
				return false
			}
		default:
			return false
		}
		keys = append(keys, k)
	}
	sort.Strings(keys) // encoding/json writes map keys in sorted order; the last match wins
	for _, k := range keys {
		fi, hit := p.field(k)
		if !hit {
			continue
		}
		f := dest.Field(fi)
		switch x := m[k].(type) {
		case nil:
		case string:
			f.SetString(x)
		case bool:
			f.SetBool(x)
		case int:
			f.SetInt(int64(x))
		case int64:
			f.SetInt(x)
		case float64:
			f.SetFloat(x)
		}
	}
	return true
}'''),
  ("flyt.go", '''import (
	"context"
	"encoding/json"
	"fmt"
	"reflect"
	"sync"
	"time"
)''', '''import (
	"context"
	"encoding/json"
	"fmt"
	"math"
	"reflect"
	"sort"
	"strings"
	"sync"
	"time"
	"unicode/utf8"
)'''),
  ("result.go", RESULT_BIND_TAIL, '''	if bindMapToStruct(r.value, rv.Elem()) {
		return nil
	}

''' + RESULT_BIND_TAIL),
  why="per-type cache of the struct's JSON field names; a map[string]any whose values are nil / valid strings / bools / ints / finite float64s is assigned field by field (sorted key order, exact name before case-insensitive match) when every value that meets a field has exactly the field's builtin type; anything else takes the JSON path untouched")

# ------------------------------------------------------------------------------------------
# 21. Result: Unwrap / Is / ErrorAs / Or / ValueAs helpers
A("resultunwrap",
  ("result.go", '''// IsError checks if the Result represents an error.''', '''// Unwrap returns the error of an error Result (nil otherwise), so that the errors package's
// helpers can be used on what it returns: errors.Is(r.Unwrap(), target).
func (r Result) Unwrap() error {
	return r.err
}

// Is reports whether the Result is an error Result whose error chain contains target.
func (r Result) Is(target error) bool {
	return r.err != nil && errors.Is(r.err, target)
}

// ErrorAs is errors.As on the Result's error.
func (r Result) ErrorAs(target any) bool {
	return r.err != nil && errors.As(r.err, target)
}

// Or returns r unless it is an error Result, in which case it returns NewResult(fallback).
func (r Result) Or(fallback any) Result {
	if r.err != nil {
		return NewResult(fallback)
	}
	return r
}

// ValueAs is As for callers that also want to know about an error Result:
// ok is false for error Results, nil values and values of another type.
func ValueAs[T any](r Result) (value T, ok bool, err error) {
	if r.err != nil {
		return value, false, r.err
	}
	value, ok = As[T](r)
	return value, ok, nil
}

// ResultOf wraps a (value, error) pair: an error Result if err != nil, else a value Result.
func ResultOf(v any, err error) Result {
	if err != nil {
		return NewErrorResult(err)
	}
	return NewResult(v)
}

// IsError checks if the Result represents an error.'''),
  ("result.go", '''import (
	"encoding/json"
	"fmt"
	"reflect"
)''', '''import (
	"encoding/json"
	"errors"
	"fmt"
	"reflect"
)'''),
  ("batch.go", '''		} else {
			if r, ok := execResult.(Result); ok {
				results[i] = r
			} else {
				results[i] = NewResult(execResult)
			}
		}
	}

	// Items that were never processed''', '''		} else {
			results[i] = asResult(execResult)
		}
	}

	// Items that were never processed'''),
  ("batch.go", '''			} else {
				if r, ok := execResult.(Result); ok {
					results[idx] = r
				} else {
					results[idx] = NewResult(execResult)
				}
			}
			mu.Unlock()''', '''			} else {
				results[idx] = asResult(execResult)
			}
			mu.Unlock()'''),
  ("batch.go", '''func runExecWithRetries(''', '''// asResult passes a Result through and wraps anything else.
func asResult(v any) Result {
	if r, ok := v.(Result); ok {
		return r
	}
	return ResultOf(v, nil)
}

func runExecWithRetries('''),
  why="Result gains Unwrap/Is/ErrorAs/Or, the generic ValueAs[T] next to As[T] and the constructor ResultOf(v, err), which the batch code now uses to fill slots")

# ------------------------------------------------------------------------------------------
# 22. TTL support with the go-cache janitor pattern (background purge goroutine per store, stopped by a finalizer)
_ttl = ALTS["ttl"]["edits"][0][2]
_ttl_j = _ttl.replace('''type SharedStore struct {
	mu      sync.RWMutex
	data    map[string]storeEntry
	expiring int // entries that carry an expiry time
}
''', '''type SharedStore struct {
	*storeCore // the janitor only references the core, so an unreachable SharedStore can be finalized
}

type storeCore struct {
	mu       sync.RWMutex
	data     map[string]storeEntry
	expiring int // entries that carry an expiry time
	stop     chan struct{}
}

// JanitorInterval is how often a store purges expired entries in the background.
var JanitorInterval = time.Minute

func (c *storeCore) janitor(every time.Duration) {
	t := time.NewTicker(every)
	defer t.Stop()
	for {
		select {
		case <-t.C:
			c.purge()
		case <-c.stop:
			return
		}
	}
}
''').replace('''func NewSharedStore() *SharedStore {
	return &SharedStore{
		data: make(map[string]storeEntry),
	}
}''', '''func NewSharedStore() *SharedStore {
	c := &storeCore{data: make(map[string]storeEntry), stop: make(chan struct{})}
	s := &SharedStore{storeCore: c}
	go c.janitor(JanitorInterval)
	runtime.SetFinalizer(s, func(s *SharedStore) { close(s.stop) })
	return s
}''').replace('''func (s *SharedStore) Purge() int {
	s.mu.Lock()''', '''func (s *SharedStore) Purge() int { return s.purge() }

func (s *storeCore) purge() int {
	s.mu.Lock()''')
A("ttljanitor",
  ("flyt.go", STORE, _ttl_j),
  ("flyt.go", '''import (
	"context"
	"encoding/json"
	"fmt"
	"reflect"
	"sync"
	"time"
)''', '''import (
	"context"
	"encoding/json"
	"fmt"
	"reflect"
	"runtime"
	"sync"
	"time"
)'''),
  why="TTL support as in patrickmn/go-cache: every store runs a janitor goroutine on a one-minute ticker that purges expired entries; it is stopped by a finalizer on the outer SharedStore (the janitor references the inner core only)")

# 22b. same, but the janitor is stopped by an explicit Close() (no finalizer)
A("ttljanitor2",
  ("flyt.go", STORE, _ttl_j.replace('''	runtime.SetFinalizer(s, func(s *SharedStore) { close(s.stop) })
''', '').replace('''// JanitorInterval is how often''', '''// Close stops the store's background purge goroutine. The store stays usable.
func (s *SharedStore) Close() {
	s.mu.Lock()
	defer s.mu.Unlock()
	select {
	case <-s.stop:
	default:
		close(s.stop)
	}
}

// JanitorInterval is how often''')),
  why="as ttljanitor, but the janitor goroutine runs until the owner calls the new SharedStore.Close()")

# ------------------------------------------------------------------------------------------
# 23. a documented, typed fallback for batch nodes
A("batchfallback",
  ("batch.go", BN_OLD, '''	batchPostFunc func(context.Context, *SharedStore, []Result, []Result) (Action, error)
	batchFallbackFunc func(item Result, err error) (Result, error)
}

// WithFallbackFunc sets the function that decides the outcome of an item whose attempts all
// failed. It receives the item and the error of the last attempt; returning a nil error makes the
// returned Result the item's result. Without it a failed item's slot holds its last error.
func (b *BatchNodeBuilder) WithFallbackFunc(fn func(item Result, err error) (Result, error)) *BatchNodeBuilder {
	b.batchFallbackFunc = fn
	return b
}

// ExecFallback implements FallbackNode for batch items.
func (n *BatchNode) ExecFallback(prepResult any, err error) (any, error) {
	if n.batchFallbackFunc == nil {
		return nil, err
	}
	item, ok := prepResult.(Result)
	if !ok {
		item = NewResult(prepResult)
	}
	res, ferr := n.batchFallbackFunc(item, err)
	if ferr != nil {
		return nil, ferr
	}
	return res, nil
}

// ExecFallback implements FallbackNode.ExecFallback by delegating to the BatchNode.
func (b *BatchNodeBuilder) ExecFallback(prepResult any, err error) (any, error) {
	return b.BatchNode.ExecFallback(prepResult, err)
}
'''),
  why="batch nodes get the fallback they never had an API for: BatchNodeBuilder.WithFallbackFunc(func(item Result, err error) (Result, error)), implemented by BatchNode.ExecFallback; like prep, exec and post, the batch node's fallback is the batch builder's own function (a fallback function sitting in the embedded CustomNode - which NewBatchNode has never accepted as an option - is not consulted)")

# 23b. same feature, but an absent batch fallback falls through to the embedded CustomNode's
A("batchfallback-deleg",
  ("batch.go", BN_OLD, ALTS["batchfallback"]["edits"][0][2].replace('''	if n.batchFallbackFunc == nil {
		return nil, err
	}''', '''	if n.batchFallbackFunc == nil {
		return n.CustomNode.ExecFallback(prepResult, err)
	}''')),
  why="as batchfallback, but without a batch fallback function BatchNode.ExecFallback delegates to the embedded CustomNode (the way BatchNode.Prep does)")

# ------------------------------------------------------------------------------------------
# 24. Resize through a target count that idle workers poll
A("resizepoll",
  ("flyt.go", '''import (
	"context"
	"encoding/json"
	"fmt"
	"reflect"
	"sync"
	"time"
)''', '''import (
	"context"
	"encoding/json"
	"fmt"
	"reflect"
	"sync"
	"sync/atomic"
	"time"
)'''),
  ("flyt.go", POOL, '''type WorkerPool struct {
	tasks chan func()
	wg    sync.WaitGroup

	target  atomic.Int32 // wanted number of workers; 0 once the pool is closed
	mu      sync.Mutex
	started int // workers started so far: worker ids are 0..started-1
	alive   []bool
}

// poolPollInterval is how often an idle worker looks at the target size.
const poolPollInterval = 50 * time.Millisecond

// NewWorkerPool creates a new worker pool with the specified number of workers.
// If workers is less than or equal to 0, it defaults to 1.
func NewWorkerPool(workers int) *WorkerPool {
	if workers <= 0 {
		workers = 1
	}
	p := &WorkerPool{tasks: make(chan func(), workers*2)}
	p.Resize(workers)
	return p
}

// Resize changes the number of workers (values <= 0 mean 1). New workers start at once; surplus
// workers leave when they are idle (they look at the target every 50ms and after every task).
// The queue is never closed, so a late Submit cannot panic.
func (p *WorkerPool) Resize(workers int) {
	if workers <= 0 {
		workers = 1
	}
	p.mu.Lock()
	defer p.mu.Unlock()
	p.target.Store(int32(workers))
	// slot i is served by at most one worker at a time
	for len(p.alive) < workers {
		p.alive = append(p.alive, false)
	}
	for i := 0; i < workers; i++ {
		if !p.alive[i] {
			p.alive[i] = true
			go p.worker(i)
		}
	}
}

func (p *WorkerPool) leave(slot int) {
	p.mu.Lock()
	p.alive[slot] = false
	// the target may have been raised again while this worker was on its way out
	if int32(slot) < p.target.Load() {
		p.alive[slot] = true
		go p.worker(slot)
	}
	p.mu.Unlock()
}

func (p *WorkerPool) worker(slot int) {
	tick := time.NewTicker(poolPollInterval)
	defer tick.Stop()
	for {
		if int32(slot) >= p.target.Load() {
			p.leave(slot)
			return
		}
		select {
		case task := <-p.tasks:
			task()
		case <-tick.C:
		}
	}
}

// Submit submits a task to the pool for execution.
// This method blocks if all workers are busy and the task buffer is full.
func (p *WorkerPool) Submit(task func()) {
	p.wg.Add(1)
	p.tasks <- func() {
		defer p.wg.Done()
		task()
	}
}

// Wait waits for all submitted tasks to complete.
func (p *WorkerPool) Wait() {
	p.wg.Wait()
}

// Close closes the worker pool: its workers leave as soon as they are idle.
func (p *WorkerPool) Close() {
	p.mu.Lock()
	p.target.Store(0)
	p.mu.Unlock()
}

'''),
  why="Resize via a target size that workers compare their slot number with after every task and, when idle, every 50ms; Close sets the target to 0 (the queue is never closed, a late Submit cannot panic): after Close every worker is gone within 50ms")

# ------------------------------------------------------------------------------------------
# 25. workers are added gradually while there is a backlog
A("rampup",
  ("flyt.go", POOL, '''type WorkerPool struct {
	workers int
	tasks   chan func()
	wg      sync.WaitGroup
	done    chan struct{}
	kick    chan struct{} // tells the scaler that work was queued

	mu   sync.Mutex
	live int
}

// poolRampInterval is the pause between two workers being added while a backlog persists.
const poolRampInterval = 2 * time.Second

// NewWorkerPool creates a new worker pool with the specified number of workers.
// If workers is less than or equal to 0, it defaults to 1.
// One worker starts immediately; further workers (up to the limit) are added one at a time,
// every two seconds, for as long as tasks are waiting in the queue.
func NewWorkerPool(workers int) *WorkerPool {
	if workers <= 0 {
		workers = 1
	}
	p := &WorkerPool{
		workers: workers,
		tasks:   make(chan func(), workers*2),
		done:    make(chan struct{}),
		kick:    make(chan struct{}, 1),
	}
	p.live = 1
	go p.worker()
	if workers > 1 {
		go p.scaler()
	}
	return p
}

func (p *WorkerPool) scaler() {
	for {
		select {
		case <-p.kick:
		case <-p.done:
			return
		}
		for {
			p.mu.Lock()
			grow := len(p.tasks) > 0 && p.live < p.workers
			if grow {
				p.live++
				go p.worker()
			}
			p.mu.Unlock()
			if !grow {
				break
			}
			t := time.NewTimer(poolRampInterval)
			select {
			case <-t.C:
			case <-p.done:
				t.Stop()
				return
			}
		}
	}
}

func (p *WorkerPool) worker() {
	for {
		select {
		case task, ok := <-p.tasks:
			if !ok {
				return
			}
			task()
		case <-p.done:
			return
		}
	}
}

// Submit submits a task to the pool for execution.
// This method blocks if all workers are busy and the task buffer is full.
func (p *WorkerPool) Submit(task func()) {
	p.wg.Add(1)
	p.tasks <- func() {
		defer p.wg.Done()
		task()
	}
	select {
	case p.kick <- struct{}{}:
	default:
	}
}

// Wait waits for all submitted tasks to complete.
func (p *WorkerPool) Wait() {
	p.wg.Wait()
}

// Close closes the worker pool; workers and scaler exit.
func (p *WorkerPool) Close() {
	close(p.done)
	close(p.tasks)
}

'''),
  why="one worker starts at once; while tasks wait in the queue a scaler adds one worker every 2 s up to the limit (never more than `workers`; with a standing backlog all `workers` run simultaneously after at most 2*(workers-1) s)")

# 22c. minimal reproducer of the janitor + finalizer pattern (no TTL logic)
A("janitormin",
  ("flyt.go", '''type SharedStore struct {
	mu   sync.RWMutex
	data map[string]any
}
''', '''type SharedStore struct {
	*storeCore // the janitor references the core only, so an unreachable SharedStore can be finalized
}

type storeCore struct {
	mu   sync.RWMutex
	data map[string]any
	stop chan struct{}
}

// janitor is the background goroutine of a store (go-cache pattern); here it has nothing to purge.
func (c *storeCore) janitor(every time.Duration) {
	t := time.NewTicker(every)
	defer t.Stop()
	for {
		select {
		case <-t.C:
		case <-c.stop:
			return
		}
	}
}
'''),
  ("flyt.go", '''func NewSharedStore() *SharedStore {
	return &SharedStore{
		data: make(map[string]any),
	}
}''', '''func NewSharedStore() *SharedStore {
	c := &storeCore{data: make(map[string]any), stop: make(chan struct{})}
	s := &SharedStore{storeCore: c}
	go c.janitor(time.Minute)
	runtime.SetFinalizer(s, func(s *SharedStore) { close(s.stop) })
	return s
}'''),
  ("flyt.go", '''	"reflect"
	"sync"
	"time"
)''', '''	"reflect"
	"runtime"
	"sync"
	"time"
)'''),
  why="minimal form of ttljanitor: per-store background goroutine stopped by a finalizer")
