#!/usr/bin/env python3
"""(A combination of two alternatives that are each legitimate need not be legitimate itself - e.g. a pool
that starts workers when it sees a backlog, combined with an unbuffered queue that never shows one - so an
alarm here is examined by hand before it counts; see DESIGN section 12.)
Soundness protocol, interaction part: random COMBINATIONS of the known alternative implementations
(2 or 3 at a time, only those whose edits apply on top of each other and keep the pinned suite
passing) must stay silent as well.   python3 soundness/combos.py [N=40] [seed=1]  -> soundness/COMBOS.md"""
import glob, os, random, shutil, subprocess, sys, time
from concurrent.futures import ThreadPoolExecutor
HERE = os.path.dirname(os.path.abspath(__file__)); ROOT = os.path.dirname(HERE)
sys.path.insert(0, HERE); sys.path.insert(0, os.path.join(ROOT, "mutants"))
from alts import ALTS  # noqa
import alts_c  # noqa
from run import purge_scratch  # noqa  (mutants/run.py)
ENV = dict(os.environ, GOFLAGS="-mod=mod", GOPROXY="off", GOSUMDB="off", GOTOOLCHAIN="local")


def apply(d, m):
    for (fn, old, new) in m["edits"]:
        p = os.path.join(d, fn); s = open(p).read() if os.path.exists(p) else ""
        if old is None:
            return False  # whole-file replacements do not combine
        if old in ("__POOL__", "__STORE__"):
            try:
                x, y = (alts_c.pool_region if old == "__POOL__" else alts_c.store_region)(s)
            except ValueError:
                return False
            open(p, "w").write(s[:x] + new + "\n" + s[y:]); continue
        if isinstance(old, tuple):
            x, y = old
            if y == "\x00EOF":
                s = s + y
            if s.count(x) != 1 or s.count(y) < 1:
                return False
            i = s.index(x); j = s.index(y, i + len(x))
            open(p, "w").write((s[:i] + new + s[j:]).replace("\x00EOF", "")); continue
        if s.count(old) != 1:
            return False
        open(p, "w").write(s.replace(old, new))
    return True


import threading
_lock = threading.Lock()
_started = [0]
_limit = [40]


def one(job):
    k, members = job
    with _lock:
        if _started[0] >= _limit[0]:
            return dict(k=k, ids=[m["id"] for m in members], status="not needed", checks={})
    d = f"/tmp/alt/combo{k}"
    shutil.rmtree(d, ignore_errors=True); os.makedirs(d)
    for f in glob.glob("/repo/*.go") + ["/repo/go.mod"]:
        shutil.copy(f, d)
    res = dict(k=k, ids=[m["id"] for m in members], status="", checks={})
    try:
        for m in members:
            if not apply(d, m):
                res["status"] = "edits conflict"; return res
        b = subprocess.run("go build . 2>&1 | tail -3; go test -vet=off -count=1 . 2>&1 | tail -3", shell=True, cwd=d, env=ENV, stdout=subprocess.PIPE, stderr=subprocess.STDOUT, text=True)
        if not ("ok  " in b.stdout and "FAIL" not in b.stdout):
            res["status"] = "does not build / suite fails"; return res
        with _lock:
            if _started[0] >= _limit[0]:
                res["status"] = "not needed"; return res
            _started[0] += 1
        res["status"] = "ok"
        allow = [0] + [2] * any(2 in m.get("allow", []) for m in members)
        props = sorted({p for m in members for p in m["props"]})
        for pid in props:
            t0 = time.time()
            c = subprocess.run([os.path.join(ROOT, "check"), pid, "--tier", "quick"], cwd=ROOT, env=dict(ENV, VERIF_REPO=d), stdout=subprocess.PIPE, stderr=subprocess.STDOUT, text=True)
            msg = ""
            for ln in c.stdout.splitlines():
                if ln.startswith("--- ") or ln.startswith("INCONCLUSIVE") or ln.startswith("BUILD FAILED"):
                    msg = ln[:200]
            res["checks"][pid] = dict(rc=c.returncode, ok=c.returncode in allow, wall=round(time.time() - t0, 1), msg=msg)
    finally:
        shutil.rmtree(d, ignore_errors=True); purge_scratch(ROOT, d)
    return res


# Combinations that are NOT legitimate although their members are (examined by hand, see DESIGN section 12).
INCOMPATIBLE = [
    ({"alt6-rampup", "alt-pool-queue-unbuffered"}, "the ramp-up pool adds workers when len(queue) > 0; an unbuffered queue never shows a backlog, so one worker remains: C08's usability clause is really violated"),
]


def main():
    n = int(sys.argv[1]) if len(sys.argv) > 1 else 40
    rng = random.Random(int(sys.argv[2]) if len(sys.argv) > 2 else 1)
    _limit[0] = n
    # (alternatives that deliberately violate ONE other property - "violates Cxx only" - are left out:
    # combined with others their own property's check is run, and rightly alarms)
    pool = [m for m in ALTS if m["props"] and not any(e[1] is None for e in m["edits"]) and "violates" not in m["why"].lower() and "breaks c" not in m["why"].lower()]
    jobs = []
    for k in range(n * 3):  # many candidates conflict; keep drawing
        members = rng.sample(pool, rng.choice([2, 2, 3]))
        if any(bad <= {m["id"] for m in members} for bad, _ in INCOMPATIBLE):
            continue
        jobs.append((k, members))
    done, out = 0, []
    with ThreadPoolExecutor(3) as ex:
        for r in ex.map(one, jobs):
            out.append(r)
    good = [r for r in out if r["status"] == "ok"][:n]
    lines = ["# Combinations of known alternative implementations must not raise alarms either", "",
             f"{len(good)} combinations that apply, build and pass the pinned suite (of {len([r for r in out if r['status'] != 'not needed'])} drawn; the others conflict textually).", "",
             "| # | combination | check | rc | wall s | reported |", "|---|---|---|---|---|---|"]
    bad = 0
    for r in good:
        for pid, c in r["checks"].items():
            bad += not c["ok"]
            lines.append(f"| {r['k']} | {' + '.join(r['ids'])} | {pid} | {c['rc']} | {c['wall']} | {c['msg'].replace('|', '/')} |")
    lines.insert(2, f"check runs: {sum(len(r['checks']) for r in good)}, not silent: {bad}\n")
    open(os.path.join(HERE, "COMBOS.md"), "w").write("\n".join(lines) + "\n")
    print("\n".join(lines[:4])); print("\n".join(l for l in lines[6:] if "| 1 |" in l or "| 2 |" in l))


if __name__ == "__main__":
    main()
