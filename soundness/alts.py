"""Legitimate ALTERNATIVE implementations of flyt: each keeps every listed property true (within its
quantifier) and therefore every listed check must stay SILENT (exit 0) on it. They come from two
independent soundness reviews of the harness (DESIGN.md section 12). Edits are (file, old, new)."""


def A(id, props, *edits, why=""):
    return dict(id=id, props=props, edits=list(edits), why=why)


ALTS = [
    A("alt-batch-fallback-gets-raw-item", ["C02", "C06", "C07", "C09", "C11", "C17"],
      ("batch.go", "return fallback.ExecFallback(item, execErr)", "return fallback.ExecFallback(item.Value(), execErr)"),
      why="the batch fallback receives the item's value (as a single node's fallback does) instead of the Result wrapper"),
    A("alt-pool-queue-unbuffered", ["C08", "C12", "C06", "C19"],
      ("flyt.go", "tasks:   make(chan func(), workers*2),", "tasks:   make(chan func()),"),
      why="no queue capacity is promised"),
    A("alt-pool-queue-16w", ["C08", "C12"],
      ("flyt.go", "tasks:   make(chan func(), workers*2),", "tasks:   make(chan func(), workers*16),"),
      why="no queue capacity is promised"),
    A("alt-stop-mode-returns-batcherror-after-post", ["C06", "C07", "C08", "C09", "C11", "C04", "C19"],
      ("batch.go", '''	if action == "" {
		action = DefaultAction
	}

	return action, nil
}

func runBatchSequential''', '''	if action == "" {
		action = DefaultAction
	}
	if errorHandling == "stop" {
		var errs []error
		for _, r := range results {
			if r.IsError() {
				errs = append(errs, r.Error())
			}
		}
		if len(errs) > 0 {
			return "", &BatchError{Errors: errs}
		}
	}

	return action, nil
}

func runBatchSequential'''),
      why="whether item failures also surface in Run's error is left open (C06/C11 speak about post and slots)"),
    A("alt-store-bind-rejects-stored-nil", ["C16", "C14", "C13"],
      ("flyt.go", '''	// Check if dest is a pointer
	rv := reflect.ValueOf(dest)
	if rv.Kind() != reflect.Ptr || rv.IsNil() {
		return fmt.Errorf("destination must be a non-nil pointer")
	}

	// If val is already the correct type, assign directly''', '''	if val == nil {
		return fmt.Errorf("cannot bind nil value stored under %q", key)
	}

	// Check if dest is a pointer
	rv := reflect.ValueOf(dest)
	if rv.Kind() != reflect.Ptr || rv.IsNil() {
		return fmt.Errorf("destination must be a non-nil pointer")
	}

	// If val is already the correct type, assign directly'''),
      why="C16 speaks about non-nil values; a stored nil is unspecified"),
    A("alt-stop-mode-discards-late-successes", ["C06", "C09", "C07", "C11"],
      ("batch.go", '''			} else {
				if r, ok := execResult.(Result); ok {
					results[idx] = r
				} else {
					results[idx] = NewResult(execResult)
				}
			}
			mu.Unlock()''', '''			} else if shouldStop && errorHandling == "stop" {
				results[idx] = NewErrorResult(fmt.Errorf("batch stopped due to error"))
			} else {
				if r, ok := execResult.(Result); ok {
					results[idx] = r
				} else {
					results[idx] = NewResult(execResult)
				}
			}
			mu.Unlock()'''),
      why="C09 allows an error in any slot in stop mode"),
    A("alt-connect-normalises-empty-action", ["C01", "C03", "C05", "C10", "C18", "C04"],
      ("flyt.go", '''	if f.transitions[from] == nil {
		f.transitions[from] = make(map[Action]Node)
	}''', '''	if action == "" {
		action = DefaultAction
	}
	if f.transitions[from] == nil {
		f.transitions[from] = make(map[Action]Node)
	}'''),
      why="what Connect(n, \"\", x) means is left open"),
    A("alt-flow-never-retried", ["C02", "C10", "C03"],
      ("flyt.go", '''// Prep implements Node interface for Flow''', '''// GetMaxRetries: a flow always gets exactly one attempt
func (f *Flow) GetMaxRetries() int { return 1 }

// Prep implements Node interface for Flow'''),
      why="a Flow only becomes retryable by overwriting its embedded BaseNode, which nothing documents"),
    A("alt-exponential-backoff", ["C20", "C19", "C02", "C05"],
      ("flyt.go", '''			select {
			case <-time.After(wait):
				// Continue with retry''', '''			select {
			case <-time.After(wait << uint(attempt-1)):
				// Continue with retry'''),
      ("batch.go", '''			case <-time.After(wait):
			case <-ctx.Done():''', '''			case <-time.After(wait << uint(attempt-1)):
			case <-ctx.Done():'''),
      why="C20 asks for at least w between attempts"),
    A("alt-getter-strings-renamed", ["C19", "C09", "C06"],
      ("flyt.go", '''		if continueOnError {
			node.batchErrorHandling = "continue"
		} else {
			node.batchErrorHandling = "stop"
		}''', '''		if continueOnError {
			node.batchErrorHandling = "continue-on-error"
		} else {
			node.batchErrorHandling = "stop"
		}'''),
      ("flyt.go", '''	if n.batchErrorHandling == "" {
		return "continue" // default
	}''', '''	if n.batchErrorHandling == "" {
		return "continue-on-error" // default
	}'''),
      ("builder.go", '''	if continueOnError {
		b.batchErrorHandling = "continue"
	} else {''', '''	if continueOnError {
		b.batchErrorHandling = "continue-on-error"
	} else {'''),
      ("batch.go", '''	if continueOnError {
		b.batchErrorHandling = "continue"
	} else {''', '''	if continueOnError {
		b.batchErrorHandling = "continue-on-error"
	} else {'''),
      ("batch.go", '''	var errorHandling = "continue"''', '''	var errorHandling = "continue-on-error"'''),
      why="the exact strings are incidental; only the documented default and distinctness matter"),
    A("alt-early-deadline-idiom", ["C02", "C07", "C20", "C05", "C11"],
      ("flyt.go", '''		if attempt > 0 && wait > 0 {
			select {
			case <-time.After(wait):
				// Continue with retry''', '''		if attempt > 0 && wait > 0 {
			if dl, ok := ctx.Deadline(); ok && time.Until(dl) < wait {
				return "", fmt.Errorf("run: deadline would expire during the retry wait: %w", context.DeadlineExceeded)
			}
			select {
			case <-time.After(wait):
				// Continue with retry'''),
      why="if the context's deadline falls inside the wait, the next attempt could never start"),
    A("alt-store-bind-assignable-fast-path-C13", ["C13"],
      ("flyt.go", '''	if valType == destType {
		rv.Elem().Set(reflect.ValueOf(val))
		return nil
	}''', '''	if valType != nil && valType.AssignableTo(destType) {
		rv.Elem().Set(reflect.ValueOf(val))
		return nil
	}'''),
      why="breaks C16 (which catches it) but the store is still linearizable: C13 must stay silent"),
    A("alt-errgroup-style-stop-cuts-sibling-retries", ["C02", "C20", "C09", "C06"],
      ("batch.go", '''func runExecWithRetries(ctx context.Context, node Node, item Result) (any, error) {''', '''var errBatchStopped = fmt.Errorf("batch stopped due to error")

func runExecWithRetries(ctx context.Context, node Node, item Result) (any, error) {
	return runExecWithRetriesStop(ctx, node, item, nil)
}

func runExecWithRetriesStop(ctx context.Context, node Node, item Result, stopped func() bool) (any, error) {'''),
      ("batch.go", '''		if ctx.Err() != nil {
			return nil, fmt.Errorf("context cancelled during retry: %w", ctx.Err())
		}
''', '''		if ctx.Err() != nil {
			return nil, fmt.Errorf("context cancelled during retry: %w", ctx.Err())
		}
		if attempt > 0 && stopped != nil && stopped() {
			return nil, errBatchStopped
		}
'''),
      ("batch.go", '''			execResult, err := runExecWithRetries(ctx, node, itm)

			mu.Lock()''', '''			execResult, err := runExecWithRetriesStop(ctx, node, itm, func() bool {
				mu.Lock()
				defer mu.Unlock()
				return shouldStop && errorHandling == "stop"
			})

			mu.Lock()'''),
      why="once a stop-on-error batch is stopped, in-flight items may lose their remaining retries (C09 only says they can still run)"),
    A("alt-prompt-cancel-returns-ctx-error-without-joining", ["C11", "C06", "C09", "C07", "C20"],
      ("batch.go", '''	pool.Wait()
}''', '''	waited := make(chan struct{})
	go func() { pool.Wait(); close(waited) }()
	select {
	case <-waited:
	case <-ctx.Done():
		// return promptly; in-flight executions finish on their own
	}
}'''),
      ("batch.go", '''	// Post phase - called once with all results
	action, err := node.Post(ctx, shared, items, results)''', '''	if err := ctx.Err(); err != nil {
		return "", fmt.Errorf("run: batch cancelled: %w", err)
	}

	// Post phase - called once with all results
	action, err := node.Post(ctx, shared, items, results)'''),
      ("batch.go", '''	pool := NewWorkerPool(concurrency)
	defer pool.Close()
''', '''	pool := NewWorkerPool(concurrency)
	defer func() { go func() { pool.Wait(); pool.Close() }() }()
'''),
      why="on cancellation the run returns the context's error at once, without joining in-flight executions and without calling post (the first branch of C11's either/or)"),
]

from alts_b import ALTS_B  # noqa: E402
ALTS += ALTS_B

import alts_c  # noqa: E402
for _id, _a in alts_c.ALTS.items():
    if alts_c.PROPS.get(_id):
        ALTS.append(dict(id="alt3-" + _id, props=alts_c.PROPS[_id], edits=_a["edits"], why=_a["why"]))

from alts_d import ALTS_D  # noqa: E402
ALTS += ALTS_D

from alts_e import ALTS_E  # noqa: E402
ALTS += ALTS_E

from alts_f import ALTS_F  # noqa: E402
ALTS += ALTS_F
